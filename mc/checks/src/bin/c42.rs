//! C42 — configuration choices do not change query results.
//!
//! Differential model checking (engine SQLH): every history over a small,
//! collision-forcing DDL/DML alphabet (copied from C04, plus a prepared INSERT
//! executed twice so that the cached-plan path with `wal_autoflush` is reached)
//! is executed on a fresh database under the DEFAULT configuration and under
//! each configuration of PRAGMA wal x synchronous x wal_autoflush x
//! wal_checkpoint_threshold.  Every statement result and the full final
//! observation must be identical.  A large-schema scenario (70 tables + 70
//! indexes > the 64-entry open-file LRU) is compared with harness-computed
//! contents, before and after a reopen.
//!
//! Session pass: the configuration is also switched IN THE MIDDLE of a session (one PRAGMA
//! wal_autoflush=OFF|ON / synchronous=OFF / wal=ON|OFF at every position of the history, after
//! some DML ran under the starting configuration) and the session is ended in every way
//! {handle dropped, explicit close(), checkpoint() then drop}; the directory is then opened
//! again under the default configuration and the full observation is compared with the
//! reference (same DML, default configuration, no switch, dropped, reopened): statements
//! executed after a PRAGMA must not be lost or reverted by the shutdown / recovery path.
use checks::sqlh::{self, Res, TestDb};
use std::collections::{BTreeMap, BTreeSet, HashMap};
use std::rc::Rc;
use turdb::OwnedValue;
use vcore::{json, Check, Ctx, Reporter, Spec, Value};

const PROP: &str = "C42";

// ---------------------------------------------------------------------------
// alphabet (copy of C04's)
// ---------------------------------------------------------------------------

/// schema variant of table `t` (always columns id, a, s)
#[derive(Clone, Copy, PartialEq, Eq, Hash, PartialOrd, Ord, Debug)]
enum Var {
    NoPk,
    Pk,
    PkIdx,
    Auto,
    Big,
}
const ALL_VARS: [Var; 5] = [Var::NoPk, Var::Pk, Var::PkIdx, Var::Auto, Var::Big];
impl Var {
    fn name(self) -> &'static str {
        match self {
            Var::NoPk => "nopk",
            Var::Pk => "pk",
            Var::PkIdx => "pkidx",
            Var::Auto => "auto",
            Var::Big => "big",
        }
    }
    fn parse(s: &str) -> Option<Var> {
        ALL_VARS.iter().copied().find(|v| v.name() == s)
    }
    /// simpler variants, simplest first (delta debugging)
    fn simpler(self) -> Vec<Var> {
        match self {
            Var::NoPk => vec![],
            Var::Pk => vec![Var::NoPk],
            _ => vec![Var::NoPk, Var::Pk],
        }
    }
    fn create_sql(self) -> Vec<String> {
        match self {
            Var::NoPk => vec!["CREATE TABLE t(id INT, a INT, s TEXT)".into()],
            Var::Pk | Var::Big => vec!["CREATE TABLE t(id INT PRIMARY KEY, a INT, s TEXT)".into()],
            Var::PkIdx => vec!["CREATE TABLE t(id INT PRIMARY KEY, a INT, s TEXT)".into(), "CREATE INDEX t_a ON t(a)".into()],
            Var::Auto => vec!["CREATE TABLE t(id INT PRIMARY KEY AUTO_INCREMENT, a INT, s TEXT)".into()],
        }
    }
}

#[derive(Clone, Copy, PartialEq, Eq, Hash, PartialOrd, Ord, Debug)]
enum Op {
    Ins(u8),
    Ins2(u8, u8),
    Upd(u8),
    UpdAll,
    Del(u8),
    DelAll,
    Trunc,
    CIdx,
    AddCol,
    InsA,
    TxnIns(u8),
    TxnUpdAll,
    CreateU,
    InsU,
    Prep(u8, u8),
    /// a PRAGMA executed in the middle of the session (configuration switched after some statements)
    Sw(Switch),
}

/// mid-session configuration switches
#[derive(Clone, Copy, PartialEq, Eq, Hash, PartialOrd, Ord, Debug)]
enum Switch {
    AfOff,
    AfOn,
    SyncOff,
    WalOn,
    WalOff,
}
const ALL_SWITCHES: [Switch; 5] = [Switch::AfOff, Switch::AfOn, Switch::SyncOff, Switch::WalOn, Switch::WalOff];
impl Switch {
    fn pragma(self) -> &'static str {
        match self {
            Switch::AfOff => "PRAGMA wal_autoflush=OFF",
            Switch::AfOn => "PRAGMA wal_autoflush=ON",
            Switch::SyncOff => "PRAGMA synchronous=OFF",
            Switch::WalOn => "PRAGMA wal=ON",
            Switch::WalOff => "PRAGMA wal=OFF",
        }
    }
    fn label(self) -> &'static str {
        &self.pragma()[7..]
    }
    fn name(self) -> &'static str {
        match self {
            Switch::AfOff => "SW_AF_OFF",
            Switch::AfOn => "SW_AF_ON",
            Switch::SyncOff => "SW_SYNC_OFF",
            Switch::WalOn => "SW_WAL_ON",
            Switch::WalOff => "SW_WAL_OFF",
        }
    }
    /// does the pragma change anything when it is the first switch of a session started under `cfg`?
    fn changes(self, cfg: Cfg) -> bool {
        match self {
            Switch::AfOff => cfg.autoflush != 1,
            Switch::AfOn => cfg.autoflush == 1,
            Switch::SyncOff => cfg.sync != 1,
            Switch::WalOn => !cfg.wal,
            Switch::WalOff => cfg.wal,
        }
    }
}

/// how the session ends before the final observation
#[derive(Clone, Copy, PartialEq, Eq, Hash, PartialOrd, Ord, Debug)]
enum End {
    /// no reopen: observe through the same handle (all passes but `session`)
    Stay,
    /// the handle is dropped (Drop does the shutdown), then Database::open
    Drop,
    /// explicit close(), drop, Database::open
    Close,
    /// explicit checkpoint(), drop, Database::open
    Checkpoint,
}
const ALL_ENDS: [End; 4] = [End::Stay, End::Drop, End::Close, End::Checkpoint];
impl End {
    fn name(self) -> &'static str {
        match self {
            End::Stay => "stay",
            End::Drop => "drop-reopen",
            End::Close => "close-reopen",
            End::Checkpoint => "checkpoint-reopen",
        }
    }
    fn parse(s: &str) -> End {
        ALL_ENDS.iter().copied().find(|e| e.name() == s).unwrap_or(End::Stay)
    }
    fn simpler(self) -> Vec<End> {
        ALL_ENDS.iter().copied().filter(|e| *e < self).collect()
    }
}

/// every op the harness knows, in "simplicity" order (rank = index)
fn universe() -> Vec<Op> {
    let mut v = vec![];
    for k in 1..=3 {
        v.push(Op::Ins(k));
    }
    for k in 1..=3 {
        v.push(Op::Upd(k));
    }
    for k in 1..=3 {
        v.push(Op::Del(k));
    }
    v.push(Op::UpdAll);
    v.push(Op::DelAll);
    v.push(Op::Trunc);
    v.push(Op::InsA);
    for (a, b) in [(1, 2), (2, 3), (3, 1)] {
        v.push(Op::Ins2(a, b));
    }
    for k in 1..=3 {
        v.push(Op::TxnIns(k));
    }
    v.push(Op::TxnUpdAll);
    for (a, b) in [(1, 2), (2, 3), (3, 1)] {
        v.push(Op::Prep(a, b));
    }
    v.push(Op::CIdx);
    v.push(Op::AddCol);
    v.push(Op::CreateU);
    v.push(Op::InsU);
    for s in ALL_SWITCHES {
        v.push(Op::Sw(s));
    }
    v
}
fn rank(op: Op) -> usize {
    universe().iter().position(|o| *o == op).unwrap_or(usize::MAX)
}

impl Op {
    fn name(self) -> String {
        match self {
            Op::Ins(k) => format!("INS{k}"),
            Op::Ins2(a, b) => format!("INS2_{a}{b}"),
            Op::Upd(k) => format!("UPD{k}"),
            Op::UpdAll => "UPDALL".into(),
            Op::Del(k) => format!("DEL{k}"),
            Op::DelAll => "DELALL".into(),
            Op::Trunc => "TRUNC".into(),
            Op::CIdx => "CIDX".into(),
            Op::AddCol => "ADDCOL".into(),
            Op::InsA => "INSA".into(),
            Op::TxnIns(k) => format!("TXN_INS{k}"),
            Op::TxnUpdAll => "TXN_UPDALL".into(),
            Op::CreateU => "CU".into(),
            Op::InsU => "IU".into(),
            Op::Prep(a, b) => format!("PREP_{a}{b}"),
            Op::Sw(s) => s.name().into(),
        }
    }
    fn is_switch(self) -> bool {
        matches!(self, Op::Sw(_))
    }
    fn parse(s: &str) -> Option<Op> {
        universe().into_iter().find(|o| o.name() == s)
    }
    /// strictly simpler replacement candidates (delta debugging)
    fn simpler(self) -> Vec<Op> {
        let c: Vec<Op> = match self {
            Op::Ins(_) => vec![Op::Ins(1), Op::Ins(2)],
            Op::Ins2(a, b) => vec![Op::Ins(1), Op::Ins(a), Op::Ins(b), Op::Ins2(1, 2)],
            Op::InsA => vec![Op::Ins(1)],
            Op::TxnIns(k) => vec![Op::Ins(1), Op::Ins(k), Op::TxnIns(1)],
            Op::TxnUpdAll => vec![Op::Upd(1), Op::UpdAll],
            Op::Upd(_) => vec![Op::Upd(1), Op::Upd(2)],
            Op::UpdAll => vec![Op::Upd(1)],
            Op::Del(_) => vec![Op::Del(1), Op::Del(2)],
            Op::DelAll => vec![Op::Del(1)],
            Op::Trunc => vec![Op::Del(1), Op::DelAll],
            Op::Prep(a, b) => vec![Op::Ins(1), Op::Ins(a), Op::Ins2(1, 2), Op::Ins2(a, b), Op::Prep(1, 2)],
            Op::InsU => vec![Op::Ins(1)],
            Op::CIdx | Op::AddCol | Op::CreateU | Op::Sw(_) => vec![],
        };
        let r = rank(self);
        c.into_iter().filter(|o| rank(*o) < r).collect()
    }
    /// number of row ids this op may consume (upper bound; for the row-id compensation)
    fn insert_rows(self) -> u64 {
        match self {
            Op::Ins(_) | Op::InsA | Op::TxnIns(_) | Op::InsU => 1,
            Op::Ins2(..) | Op::Prep(..) => 2,
            _ => 0,
        }
    }
}

fn text_val(var: Var, step: usize, tag: char) -> String {
    if var == Var::Big {
        // 1.5 KB value: above the 1000-byte TOAST threshold
        let c = (b'a' + (step % 26) as u8) as char;
        let mut s = String::with_capacity(1502);
        s.push(tag);
        for _ in 0..1500 {
            s.push(c);
        }
        s
    } else {
        format!("{tag}{step}")
    }
}

/// database configuration (pragmas are process-memory only: re-applied after every reopen)
#[derive(Clone, Copy, PartialEq, Eq, Hash, PartialOrd, Ord, Debug)]
struct Cfg {
    wal: bool,
    /// 0 = not set (default FULL), 1 OFF, 2 NORMAL, 3 FULL
    sync: u8,
    /// 0 = not set (default ON), 1 = OFF, 2 = ON
    autoflush: u8,
    /// 0 = not set (default 1000)
    threshold: u32,
}
impl Cfg {
    const DEFAULT: Cfg = Cfg { wal: false, sync: 0, autoflush: 0, threshold: 0 };
    fn wal(on: bool) -> Cfg {
        Cfg { wal: on, ..Cfg::DEFAULT }
    }
    fn pragmas(self) -> Vec<String> {
        let mut v = vec![];
        if self.wal {
            v.push("PRAGMA wal=ON".to_string());
        }
        match self.sync {
            1 => v.push("PRAGMA synchronous=OFF".into()),
            2 => v.push("PRAGMA synchronous=NORMAL".into()),
            3 => v.push("PRAGMA synchronous=FULL".into()),
            _ => {}
        }
        match self.autoflush {
            1 => v.push("PRAGMA wal_autoflush=OFF".into()),
            2 => v.push("PRAGMA wal_autoflush=ON".into()),
            _ => {}
        }
        if self.threshold > 0 {
            v.push(format!("PRAGMA wal_checkpoint_threshold={}", self.threshold));
        }
        v
    }
    fn wal_name(self) -> &'static str {
        if self.wal {
            "wal-on"
        } else {
            "wal-off"
        }
    }
    fn to_json(self) -> Value {
        json!({"wal": self.wal, "sync": self.sync, "autoflush": self.autoflush, "threshold": self.threshold})
    }
    fn from_json(v: &Value) -> Cfg {
        Cfg {
            wal: v["wal"].as_bool().unwrap_or(false),
            sync: v["sync"].as_u64().unwrap_or(0) as u8,
            autoflush: v["autoflush"].as_u64().unwrap_or(0) as u8,
            threshold: v["threshold"].as_u64().unwrap_or(0) as u32,
        }
    }
}

impl Cfg {
    /// the non-default pragmas as "name=value" (signature component)
    fn label(self) -> String {
        let mut v: Vec<String> = vec![];
        if self.wal {
            v.push("wal=ON".into());
        }
        match self.sync {
            1 => v.push("synchronous=OFF".into()),
            2 => v.push("synchronous=NORMAL".into()),
            3 => v.push("synchronous=FULL".into()),
            _ => {}
        }
        match self.autoflush {
            1 => v.push("wal_autoflush=OFF".into()),
            2 => v.push("wal_autoflush=ON".into()),
            _ => {}
        }
        if self.threshold > 0 {
            v.push(format!("wal_checkpoint_threshold={}", self.threshold));
        }
        if v.is_empty() {
            "default".into()
        } else {
            v.join(",")
        }
    }
    /// configurations with one more pragma reset to its default (delta debugging)
    fn simpler(self) -> Vec<Cfg> {
        let mut v = vec![];
        if self.threshold != 0 {
            v.push(Cfg { threshold: 0, ..self });
        }
        if self.autoflush != 0 {
            v.push(Cfg { autoflush: 0, ..self });
        }
        if self.sync != 0 {
            v.push(Cfg { sync: 0, ..self });
        }
        if self.wal {
            v.push(Cfg { wal: false, ..self });
        }
        v
    }
}

/// wal {off,on} x synchronous {OFF,NORMAL,FULL} x wal_autoflush {on,off} x threshold {1,2,default}.
/// With WAL on an unset synchronous IS the FULL level (default of a new WAL object).  With WAL off
/// `PRAGMA synchronous=..` still creates a WAL object; the threshold pragma is silently ignored without one,
/// so threshold levels are combined only with configurations that have a WAL object (invalid combos excluded).
fn all_configs() -> Vec<Cfg> {
    let mut v = vec![];
    for wal in [false, true] {
        let syncs: &[u8] = if wal { &[0, 1, 2] } else { &[0, 1, 2, 3] };
        for &sync in syncs {
            for autoflush in [0u8, 1] {
                for threshold in [0u32, 1, 2] {
                    let c = Cfg { wal, sync, autoflush, threshold };
                    if c == Cfg::DEFAULT {
                        continue;
                    }
                    if !wal && sync == 0 && threshold != 0 {
                        continue;
                    }
                    v.push(c);
                }
            }
        }
    }
    v
}
/// one-factor-at-a-time deviations plus corners (used at the deepest level)
fn covering_configs() -> Vec<Cfg> {
    let on = Cfg { wal: true, ..Cfg::DEFAULT };
    vec![
        on,
        Cfg { sync: 1, ..on },
        Cfg { sync: 2, ..on },
        Cfg { autoflush: 1, ..on },
        Cfg { threshold: 1, ..on },
        Cfg { threshold: 2, ..on },
        Cfg { sync: 1, autoflush: 1, threshold: 1, ..on },
        Cfg { sync: 1, ..Cfg::DEFAULT },
        Cfg { sync: 3, threshold: 1, ..Cfg::DEFAULT },
        Cfg { autoflush: 1, ..Cfg::DEFAULT },
    ]
}

/// one fully specified execution
#[derive(Clone, PartialEq, Eq, Hash, Debug)]
struct RunKey {
    var: Var,
    ops: Vec<Op>,
    cfg: Cfg,
    end: End,
}
impl RunKey {
    fn steps(&self) -> usize {
        1 + self.ops.len()
    }
    /// the reference execution: default configuration, no mid-session switches, and (when the session ends
    /// with a reopen) the plain drop + open
    fn twin(&self) -> RunKey {
        RunKey { var: self.var, ops: self.ops.iter().copied().filter(|o| !o.is_switch()).collect(), cfg: Cfg::DEFAULT, end: if self.end == End::Stay { End::Stay } else { End::Drop } }
    }
    fn is_reference(&self) -> bool {
        self.cfg == Cfg::DEFAULT && (self.end == End::Stay || self.end == End::Drop) && !self.ops.iter().any(|o| o.is_switch())
    }
    /// op pattern; keys are renamed a,b,c by first appearance so that histories differing only by a key
    /// permutation share a signature
    fn pattern(&self) -> String {
        let mut seen: Vec<u8> = vec![];
        let mut letter = |k: u8| -> char {
            let i = match seen.iter().position(|x| *x == k) {
                Some(i) => i,
                None => {
                    seen.push(k);
                    seen.len() - 1
                }
            };
            (b'a' + i as u8) as char
        };
        let mut toks: Vec<String> = vec![format!("T:{}", self.var.name())];
        for op in &self.ops {
            toks.push(match *op {
                Op::Ins(k) => format!("INS[{}]", letter(k)),
                Op::Ins2(a, b) => {
                    let (x, y) = (letter(a), letter(b));
                    format!("INS2[{x}{y}]")
                }
                Op::Upd(k) => format!("UPD[{}]", letter(k)),
                Op::Del(k) => format!("DEL[{}]", letter(k)),
                Op::TxnIns(k) => format!("TXN_INS[{}]", letter(k)),
                Op::Prep(a, b) => {
                    let (x, y) = (letter(a), letter(b));
                    format!("PREP[{x}{y}]")
                }
                Op::Sw(s) => format!("PRAGMA[{}]", s.label()),
                o => o.name(),
            });
        }
        if self.end != End::Stay {
            toks.push(format!("@{}", self.end.name()));
        }
        toks.join("+")
    }
    fn to_json(&self) -> Value {
        json!({
            "variant": self.var.name(),
            "ops": self.ops.iter().map(|o| o.name()).collect::<Vec<_>>(),
            "cfg": self.cfg.to_json(),
            "cfg_label": self.cfg.label(),
            "end": self.end.name(),
        })
    }
    fn from_json(v: &Value) -> Option<RunKey> {
        let var = Var::parse(v["variant"].as_str()?)?;
        let mut ops = vec![];
        for o in v["ops"].as_array()? {
            ops.push(Op::parse(o.as_str()?)?);
        }
        Some(RunKey { var, ops, cfg: Cfg::from_json(&v["cfg"]), end: End::parse(v["end"].as_str().unwrap_or("stay")) })
    }
}

// ---------------------------------------------------------------------------
// execution
// ---------------------------------------------------------------------------

#[derive(Clone, Debug)]
struct Trace {
    /// results per step (step 0 = CREATE statements)
    steps: Vec<Vec<Res>>,
    /// setup problem (create / pragma failed)
    setup_fail: Option<String>,
    /// (kind, sql, result) — row results as sorted bags
    obs: Vec<(&'static str, String, Res)>,
    statements: u64,
    rows_final: usize,
    index_plan: bool,
    /// WAL frames present at the end (PRAGMA wal_frame_count; evidence only)
    wal_frames: u64,
}

fn same(a: &Res, b: &Res) -> bool {
    match (a, b) {
        (Res::Rows(x), Res::Rows(y)) => refmodel::val::bag(x) == refmodel::val::bag(y),
        (Res::Affected(n, x), Res::Affected(m, y)) => {
            n == m
                && match (x, y) {
                    (None, None) => true,
                    (Some(x), Some(y)) => refmodel::val::bag(x) == refmodel::val::bag(y),
                    _ => false,
                }
        }
        (Res::Done(x), Res::Done(y)) => x == y,
        // error text may legitimately differ (paths); the class is what is compared
        (Res::Err(_), Res::Err(_)) => true,
        (Res::Panic(_), Res::Panic(_)) => true,
        _ => false,
    }
}

fn op_exec(t: &TestDb, var: Var, op: Op, step: usize) -> Vec<Res> {
    let ins = |k: u8, tag: char| format!("({k},{k},'{}')", text_val(var, step, tag));
    match op {
        Op::Ins(k) => vec![t.exec(&format!("INSERT INTO t (id,a,s) VALUES {}", ins(k, 'i')))],
        Op::Ins2(a, b) => vec![t.exec(&format!("INSERT INTO t (id,a,s) VALUES {},{}", ins(a, 'i'), ins(b, 'j')))],
        Op::Upd(k) => vec![t.exec(&format!("UPDATE t SET a = {}, s = '{}' WHERE id = {k}", k % 3 + 1, text_val(var, step, 'u')))],
        Op::UpdAll => vec![t.exec("UPDATE t SET a = a + 1")],
        Op::Del(k) => vec![t.exec(&format!("DELETE FROM t WHERE id = {k}"))],
        Op::DelAll => vec![t.exec("DELETE FROM t")],
        Op::Trunc => vec![t.exec("TRUNCATE TABLE t")],
        Op::CIdx => vec![t.exec("CREATE INDEX t_a2 ON t(a)")],
        Op::AddCol => vec![t.exec("ALTER TABLE t ADD COLUMN z INT")],
        Op::InsA => vec![t.exec(&format!("INSERT INTO t (a,s) VALUES (1,'{}')", text_val(var, step, 'n')))],
        Op::TxnIns(k) => vec![t.exec("BEGIN"), t.exec(&format!("INSERT INTO t (id,a,s) VALUES {}", ins(k, 'i'))), t.exec("COMMIT")],
        Op::TxnUpdAll => vec![t.exec("BEGIN"), t.exec("UPDATE t SET a = a + 1"), t.exec("COMMIT")],
        Op::CreateU => vec![t.exec("CREATE TABLE u(id INT PRIMARY KEY AUTO_INCREMENT, a INT)")],
        Op::InsU => vec![t.exec(&format!("INSERT INTO u (a) VALUES ({step})"))],
        Op::Sw(s) => vec![t.exec(s.pragma())],
        Op::Prep(a, b) => {
            // prepared INSERT executed twice: the second execution takes the cached-plan path
            let db = t.db();
            let prepared = vcore::catch(|| db.prepare("INSERT INTO t (id,a,s) VALUES (?,?,?)").map_err(|e| format!("{e:#}")));
            match prepared {
                Err(p) => vec![Res::Panic(p)],
                Ok(Err(e)) => vec![Res::Err(e)],
                Ok(Ok(stmt)) => [(a, 'p'), (b, 'q')]
                    .iter()
                    .map(|(k, tag)| {
                        if vcore::catch(|| stmt.cached_insert_plan().is_some()).unwrap_or(false) {
                            CACHED_PLAN_EXECS.with(|c| c.set(c.get() + 1));
                        }
                        let r = vcore::catch(|| {
                            stmt.bind(OwnedValue::Int(*k as i64))
                                .bind(OwnedValue::Int(*k as i64))
                                .bind(OwnedValue::Text(text_val(var, step, *tag)))
                                .execute(db)
                                .map_err(|e| format!("{e:#}"))
                        });
                        match r {
                            Ok(r) => sqlh::norm(r),
                            Err(p) => Res::Panic(p),
                        }
                    })
                    .collect(),
            }
        }
    }
}

thread_local! {
    /// sessions ended by drop / close() / checkpoint() and opened again
    static SESSION_REOPENS: std::cell::Cell<u64> = std::cell::Cell::new(0);
    /// executions of a prepared INSERT that found a cached insert plan (the `insert_cached` path, where wal_autoflush matters)
    static CACHED_PLAN_EXECS: std::cell::Cell<u64> = std::cell::Cell::new(0);
}

fn apply_cfg(t: &TestDb, cfg: Cfg) -> Result<(), String> {
    for p in cfg.pragmas() {
        let r = t.exec(&p);
        if !r.ok() {
            return Err(format!("{p}: {}", r.show()));
        }
    }
    Ok(())
}

fn bagged(r: Res) -> Res {
    match r {
        Res::Rows(rows) => Res::Rows(refmodel::val::bag(&rows)),
        o => o,
    }
}

fn columns_of(t: &TestDb, table: &str) -> Res {
    let db = t.db();
    match vcore::catch(|| db.query_with_columns(&format!("SELECT * FROM {table}")).map_err(|e| format!("{e:#}"))) {
        Ok(Ok((cols, _))) => Res::Done(cols.join(",")),
        Ok(Err(e)) => Res::Err(e),
        Err(p) => Res::Panic(p),
    }
}

/// the full observation; the AUTO_INCREMENT probes write and therefore come last
fn observe_all(t: &TestDb, out: &mut Vec<(&'static str, String, Res)>) {
    out.push(("schema", "columns of t".into(), columns_of(t, "t")));
    out.push(("schema", "columns of u".into(), columns_of(t, "u")));
    let mut q = |kind: &'static str, sql: String| {
        let r = bagged(t.exec(&sql));
        out.push((kind, sql, r));
    };
    q("rows", "SELECT * FROM t".into());
    q("rows", "SELECT * FROM u".into());
    q("count", "SELECT COUNT(*) FROM t".into());
    q("count", "SELECT COUNT(*) FROM u".into());
    for k in 0..=4 {
        q("pk-lookup", format!("SELECT * FROM t WHERE id = {k}"));
    }
    q("pk-lookup", "SELECT * FROM t WHERE id >= 2".into());
    q("pk-lookup", "SELECT * FROM t WHERE id < 2".into());
    q("pk-lookup", "SELECT * FROM u WHERE id = 1".into());
    q("pk-lookup", "SELECT * FROM u WHERE id = 2".into());
    for v in 0..=4 {
        q("index-lookup", format!("SELECT * FROM t WHERE a = {v}"));
    }
    q("index-lookup", "SELECT * FROM t WHERE a >= 2".into());
    q("index-lookup", "SELECT * FROM t WHERE a < 3".into());
    // next AUTO_INCREMENT value: insert a probe row in BOTH twins and read it back
    q("autoinc", "INSERT INTO t (a,s) VALUES (77,'probe')".into());
    q("autoinc", "SELECT id FROM t WHERE a = 77".into());
    q("autoinc", "INSERT INTO u (a) VALUES (77)".into());
    q("autoinc", "SELECT id FROM u WHERE a = 77".into());
    q("count", "SELECT COUNT(*) FROM t".into());
}

#[derive(Clone, Debug)]
struct Diff {
    kind: &'static str,
    at: String,
    expected: String,
    observed: String,
}

fn show_step(v: &[Res]) -> String {
    v.iter().map(|r| r.show()).collect::<Vec<_>>().join(" ; ")
}

fn step_kind(a: &Res, b: &Res) -> &'static str {
    if a.class() != b.class() {
        if !a.ok() || !b.ok() {
            "error"
        } else {
            "schema"
        }
    } else {
        match a {
            Res::Done(_) => "schema",
            _ => "rows",
        }
    }
}

fn execute(scratch: &std::path::Path, name: &str, k: &RunKey) -> Trace {
    let mut tr = Trace { steps: vec![], setup_fail: None, obs: vec![], statements: 0, rows_final: 0, index_plan: false, wal_frames: 0 };
    let mut t = match TestDb::create(scratch, name) {
        Ok(t) => t,
        Err(e) => {
            tr.setup_fail = Some(format!("Database::create failed: {e}"));
            return tr;
        }
    };
    if let Err(e) = apply_cfg(&t, k.cfg) {
        tr.setup_fail = Some(format!("pragma failed: {e}"));
        return tr;
    }
    // values written by a statement depend on its position among the NON-switch steps, so that the reference
    // execution (switches removed) writes the same values
    let mut logical = 0usize;
    for s in 0..k.steps() {
        let res = if s == 0 {
            k.var.create_sql().iter().map(|q| t.exec(q)).collect::<Vec<_>>()
        } else {
            if !k.ops[s - 1].is_switch() {
                logical += 1;
            }
            op_exec(&t, k.var, k.ops[s - 1], logical)
        };
        tr.statements += res.len() as u64;
        tr.steps.push(res);
    }
    if (k.cfg.wal || k.cfg.sync != 0 || k.ops.iter().any(|o| o.is_switch())) && k.end != End::Stay {
        if let Res::Done(tag) = t.exec("PRAGMA wal_frame_count") {
            tr.wal_frames = tag.split('"').nth(1).and_then(|n| n.parse().ok()).unwrap_or(0);
        }
    }
    if k.end != End::Stay {
        // the session ends; the directory is opened again under the default configuration
        let r = match k.end {
            End::Drop | End::Stay => t.reopen(),
            End::Close => t.close_reopen(),
            End::Checkpoint => {
                let cp = match vcore::catch(|| t.db().checkpoint().map(|_| ()).map_err(|e| format!("{e:#}"))) {
                    Ok(Ok(())) => Ok(()),
                    Ok(Err(e)) => Err(format!("checkpoint: {e}")),
                    Err(p) => Err(format!("PANIC in checkpoint: {p}")),
                };
                match cp {
                    Ok(()) => t.reopen(),
                    Err(e) => Err(e),
                }
            }
        };
        let what = format!("{} + Database::open", k.end.name());
        match r {
            Ok(()) => tr.obs.push(("reopen", what, Res::Done("open".into()))),
            Err(e) => {
                tr.obs.push(("reopen", what, if e.starts_with("PANIC") { Res::Panic(e) } else { Res::Err(e) }));
                return tr;
            }
        }
        SESSION_REOPENS.with(|c| c.set(c.get() + 1));
    }
    if k.cfg == Cfg::DEFAULT {
        // vacuity evidence only (not compared): does the a-lookup use the secondary index?
        if let Some(plan) = sqlh::explain(t.db(), "SELECT * FROM t WHERE a = 1") {
            tr.index_plan = plan.contains("Index");
        }
    }
    observe_all(&t, &mut tr.obs);
    if let Some((_, _, Res::Rows(r))) = tr.obs.iter().find(|(k, _, _)| *k == "rows") {
        tr.rows_final = r.len();
    }
    if (k.cfg.wal || k.cfg.sync != 0) && k.end == End::Stay {
        if let Res::Done(tag) = t.exec("PRAGMA wal_frame_count") {
            tr.wal_frames = tag.split('"').nth(1).and_then(|n| n.parse().ok()).unwrap_or(0);
        }
    }
    tr
}

/// first difference between the twin (default configuration) and the run
fn diff(key: &RunKey, twin: &Trace, run: &Trace) -> Option<Diff> {
    let step_name = |s: usize| if s == 0 { format!("step 0 (CREATE {})", key.var.name()) } else { format!("step {s} ({})", key.ops[s - 1].name()) };
    if let Some(e) = &twin.setup_fail {
        return Some(Diff { kind: "error", at: "baseline setup".into(), expected: "baseline runs".into(), observed: e.clone() });
    }
    if let Some(e) = &run.setup_fail {
        return Some(Diff { kind: "error", at: "configuration setup".into(), expected: "pragmas accepted".into(), observed: e.clone() });
    }
    let mut ts = 0usize; // step index in the reference (it has no switch steps)
    for s in 0..run.steps.len() {
        if s >= 1 && key.ops[s - 1].is_switch() {
            if let Some(bad) = run.steps[s].iter().find(|r| !r.ok()) {
                return Some(Diff { kind: "error", at: format!("result of {}", step_name(s)), expected: "pragma accepted".into(), observed: bad.show() });
            }
            continue;
        }
        if ts >= twin.steps.len() {
            break;
        }
        let (a, b) = (&twin.steps[ts], &run.steps[s]);
        ts += 1;
        for i in 0..a.len().max(b.len()) {
            match (a.get(i), b.get(i)) {
                (Some(x), Some(y)) if same(x, y) => {}
                (Some(x), Some(y)) => {
                    return Some(Diff { kind: step_kind(x, y), at: format!("result of {}", step_name(s)), expected: show_step(a), observed: show_step(b) });
                }
                _ => return Some(Diff { kind: "error", at: format!("result of {}", step_name(s)), expected: show_step(a), observed: show_step(b) }),
            }
        }
    }
    for (x, y) in twin.obs.iter().zip(run.obs.iter()) {
        if !same(&x.2, &y.2) {
            let kind = if x.0 == "reopen" { "error" } else { x.0 };
            let when = if key.end == End::Stay { "final observation".to_string() } else { format!("observation after {} + open", key.end.name()) };
            return Some(Diff { kind, at: format!("{when} `{}`", x.1), expected: x.2.show(), observed: y.2.show() });
        }
    }
    None
}

// ---------------------------------------------------------------------------
// engine: memoised judging + delta debugging
// ---------------------------------------------------------------------------

struct Engine<'a> {
    ctx: &'a Ctx,
    twins: HashMap<RunKey, Rc<Trace>>,
    memo: HashMap<RunKey, Option<Diff>>,
    runs: u64,
    shrink_runs: u64,
    runs_with_wal_frames: u64,
    /// planted difference for the harness self-test (`--opt plant=1`): synchronous=NORMAL loses a row
    plant: bool,
}

impl<'a> Engine<'a> {
    fn new(ctx: &'a Ctx) -> Self {
        Engine { ctx, twins: HashMap::new(), memo: HashMap::new(), runs: 0, shrink_runs: 0, runs_with_wal_frames: 0, plant: ctx.opt("plant").is_some() }
    }
    fn twin(&mut self, key: &RunKey) -> Rc<Trace> {
        let tk = key.twin();
        if let Some(t) = self.twins.get(&tk) {
            return t.clone();
        }
        if self.twins.len() > 400 {
            self.twins.clear();
        }
        self.runs += 1;
        let t = Rc::new(execute(&self.ctx.scratch, "a", &tk));
        self.twins.insert(tk, t.clone());
        t
    }
    fn run(&mut self, key: &RunKey) -> Trace {
        self.runs += 1;
        let mut t = execute(&self.ctx.scratch, "b", key);
        if t.wal_frames > 0 {
            self.runs_with_wal_frames += 1;
        }
        if self.plant && key.cfg.sync == 2 {
            for o in t.obs.iter_mut() {
                if let Res::Rows(r) = &mut o.2 {
                    if o.0 == "rows" && r.len() >= 2 {
                        r.pop();
                    }
                }
            }
        }
        t
    }
    /// memoised verdict of one execution against its default-configuration twin
    fn judge(&mut self, key: &RunKey) -> Option<Diff> {
        if key.is_reference() {
            return None;
        }
        if let Some(d) = self.memo.get(key) {
            return d.clone();
        }
        let twin = self.twin(key);
        let run = self.run(key);
        let d = diff(key, &twin, &run);
        if self.memo.len() > 400_000 {
            self.memo.clear();
        }
        self.memo.insert(key.clone(), d.clone());
        d
    }
    /// delta debugging to a 1-minimal (history, configuration) that still shows a difference of the same kind
    fn shrink(&mut self, key: &RunKey, kind: &str) -> (RunKey, Diff) {
        let mut cur = key.clone();
        let mut cur_diff = self.judge(&cur).expect("shrink of a non-violating case");
        let before = self.runs;
        loop {
            let mut changed = false;
            // 0. fewer non-default pragmas
            loop {
                let mut found = false;
                for c in cur.cfg.simpler() {
                    let mut cand = cur.clone();
                    cand.cfg = c;
                    if let Some(d) = self.judge(&cand) {
                        if d.kind == kind {
                            cur = cand;
                            cur_diff = d;
                            changed = true;
                            found = true;
                            break;
                        }
                    }
                }
                if !found {
                    break;
                }
            }
            // 0b. simpler session ending (none < drop < close() < checkpoint())
            for e in cur.end.simpler() {
                let mut cand = cur.clone();
                cand.end = e;
                if let Some(d) = self.judge(&cand) {
                    if d.kind == kind {
                        cur = cand;
                        cur_diff = d;
                        changed = true;
                        break;
                    }
                }
            }
            // 1. remove ops
            let mut i = 0;
            while i < cur.ops.len() {
                let mut cand = cur.clone();
                cand.ops.remove(i);
                match self.judge(&cand) {
                    Some(d) if d.kind == kind => {
                        cur = cand;
                        cur_diff = d;
                        changed = true;
                    }
                    _ => i += 1,
                }
            }
            // 2. simpler ops
            for i in 0..cur.ops.len() {
                for alt in cur.ops[i].simpler() {
                    let mut cand = cur.clone();
                    cand.ops[i] = alt;
                    if let Some(d) = self.judge(&cand) {
                        if d.kind == kind {
                            cur = cand;
                            cur_diff = d;
                            changed = true;
                            break;
                        }
                    }
                }
            }
            // 3. simpler schema variant
            for v in cur.var.simpler() {
                let mut cand = cur.clone();
                cand.var = v;
                if let Some(d) = self.judge(&cand) {
                    if d.kind == kind {
                        cur = cand;
                        cur_diff = d;
                        changed = true;
                        break;
                    }
                }
            }
            if !changed {
                break;
            }
        }
        self.shrink_runs += self.runs - before;
        (cur, cur_diff)
    }
}

fn signature(min: &RunKey, kind: &str) -> String {
    format!("{PROP}/{}/{}/{}", min.cfg.label(), kind, min.pattern())
}

/// judge one case; on a difference shrink it and report.  Returns true when it violated.
fn check_case(eng: &mut Engine, rep: &mut Reporter, key: &RunKey, pass: &str, report: bool) -> bool {
    let Some(d) = eng.judge(key) else { return false };
    if report {
        let (min, md) = eng.shrink(key, d.kind);
        let sig = signature(&min, d.kind);
        let case = json!({"pass": pass, "run": key.to_json(), "minimal": min.to_json(), "minimal_pattern": min.pattern()});
        rep.violation(
            PROP,
            "twin-equality",
            &sig,
            || case,
            &format!("[{}] same as under the default configuration: {}", md.at, md.expected),
            &format!("[{}] {}", md.at, md.observed),
        );
    }
    true
}

// ---------------------------------------------------------------------------
// passes
// ---------------------------------------------------------------------------

struct Pass {
    name: &'static str,
    vars: Vec<Var>,
    alphabet: Vec<Op>,
    /// max number of ops after the CREATE step
    max_ops: usize,
    configs: Vec<Cfg>,
}

fn full_alphabet() -> Vec<Op> {
    vec![
        Op::Ins(1),
        Op::Ins(2),
        Op::Ins(3),
        Op::Ins2(1, 2),
        Op::Ins2(2, 3),
        Op::Prep(1, 2),
        Op::Prep(3, 1),
        Op::Upd(1),
        Op::Upd(2),
        Op::UpdAll,
        Op::Del(1),
        Op::Del(2),
        Op::DelAll,
        Op::Trunc,
        Op::CIdx,
        Op::AddCol,
        Op::InsA,
        Op::TxnIns(3),
        Op::TxnUpdAll,
        Op::CreateU,
        Op::InsU,
    ]
}
fn reduced_alphabet() -> Vec<Op> {
    vec![Op::Ins(1), Op::TxnUpdAll, Op::Prep(2, 3), Op::Upd(1), Op::UpdAll, Op::Del(1), Op::Trunc, Op::CIdx, Op::InsA, Op::TxnIns(3)]
}

fn passes(ctx: &Ctx) -> Vec<Pass> {
    let q = ctx.quick();
    let mut v = vec![];
    v.push(Pass { name: "all-configs", vars: ALL_VARS.to_vec(), alphabet: full_alphabet(), max_ops: if q { 1 } else { 3 }, configs: all_configs() });
    if q {
        v.push(Pass { name: "covering-configs", vars: ALL_VARS.to_vec(), alphabet: full_alphabet(), max_ops: 2, configs: covering_configs() });
        let on = Cfg { wal: true, ..Cfg::DEFAULT };
        v.push(Pass {
            name: "deep",
            vars: vec![Var::PkIdx, Var::Auto],
            alphabet: vec![Op::Ins(1), Op::Prep(2, 3), Op::TxnUpdAll, Op::UpdAll, Op::Del(1), Op::Trunc, Op::InsA, Op::TxnIns(3)],
            max_ops: 3,
            configs: vec![on, Cfg { threshold: 1, ..on }, Cfg { sync: 1, autoflush: 1, threshold: 2, ..on }, Cfg { sync: 1, ..Cfg::DEFAULT }],
        });
    } else {
        v.push(Pass { name: "deep", vars: vec![Var::PkIdx, Var::Auto, Var::Big], alphabet: reduced_alphabet(), max_ops: 4, configs: covering_configs() });
    }
    v
}

struct Walker<'a, 'b> {
    eng: Engine<'a>,
    rep: &'b mut Reporter,
    case_idx: u64,
    capped: bool,
}

impl<'a, 'b> Walker<'a, 'b> {
    /// evaluate one history node under every live configuration; returns the configurations that diverged here
    fn eval_node(&mut self, pass: &Pass, var: Var, ops: &[Op], dead: &BTreeSet<Cfg>, report: bool) -> BTreeSet<Cfg> {
        let mut newly = BTreeSet::new();
        let n = 1 + ops.len();
        let mut first = true;
        for &cfg in &pass.configs {
            if dead.contains(&cfg) {
                if report {
                    self.rep.pruned(1);
                }
                continue;
            }
            let key = RunKey { var, ops: ops.to_vec(), cfg, end: End::Stay };
            if first {
                first = false;
                let tw = self.eng.twin(&key);
                if report {
                    self.rep.count("baseline_histories", 1);
                    if tw.index_plan {
                        self.rep.count("baseline_index_plans_for_a_lookup", 1);
                    }
                    let errs = tw.steps.iter().flatten().filter(|r| r.is_err()).count();
                    let panics = tw.steps.iter().flatten().filter(|r| r.is_panic()).count() + tw.obs.iter().filter(|o| o.2.is_panic()).count();
                    self.rep.count("baseline_statement_errors", errs as u64);
                    self.rep.count("baseline_panics", panics as u64);
                    self.rep.outcome(&format!("baseline/{}/rows{}/err{}/panic{}", var.name(), tw.rows_final.min(4), errs.min(2), panics.min(1)));
                    self.rep.add_states(n as u64);
                    self.rep.add_transitions(tw.statements);
                    self.rep.add_traces_validated(1);
                }
            }
            let violated = check_case(&mut self.eng, self.rep, &key, pass.name, report);
            if report {
                let rep = &mut *self.rep;
                rep.case(vcore::util::hash_of(&key), !ops.is_empty());
                rep.add_states(n as u64);
                rep.add_transitions(n as u64);
                rep.add_traces_validated(1);
                rep.count(&format!("cfg {}", cfg.label()), 1);
                if violated {
                    rep.count("diverged_runs", 1);
                }
                rep.outcome(&format!("{}/{}", cfg.label(), if violated { "diverged" } else { "equal" }));
            }
            if violated {
                newly.insert(cfg);
            }
        }
        newly
    }

    fn dfs(&mut self, pass: &Pass, var: Var, ops: &mut Vec<Op>, dead: &BTreeSet<Cfg>, owned: bool) {
        if self.capped {
            return;
        }
        if self.eng.ctx.expired() {
            self.capped = true;
            self.rep.capped(&format!("deadline in pass {}", pass.name));
            return;
        }
        // the root node of a variant is evaluated by every worker (cheap) and reported by the owner of its
        // index; subtrees are split across workers at depth 1
        let depth = ops.len();
        let (report, owned_below) = if depth == 0 {
            self.case_idx += 1;
            (self.eng.ctx.mine(self.case_idx), false)
        } else if depth == 1 {
            self.case_idx += 1;
            let mine = self.eng.ctx.mine(self.case_idx);
            (mine, mine)
        } else {
            (owned, owned)
        };
        if depth >= 1 && !owned_below {
            return;
        }
        let newly = self.eval_node(pass, var, ops, dead, report);
        if depth >= pass.max_ops {
            return;
        }
        let mut dead2 = dead.clone();
        dead2.extend(newly);
        for &op in &pass.alphabet {
            ops.push(op);
            self.dfs(pass, var, ops, &dead2, owned_below);
            ops.pop();
        }
    }
}

// ---------------------------------------------------------------------------
// session pass: configuration switched in mid-session x how the session ends, judged after a reopen
// ---------------------------------------------------------------------------

/// Every history of <= max_ops letters over `dml` plus AT MOST ONE mid-session PRAGMA switch (at every
/// position, only switches that change something under the starting configuration) is executed under
/// every starting configuration and ended in every way of `ends`; the directory is then opened again
/// under the default configuration and fully observed.  Reference = the same DML under the default
/// configuration, no switch, handle dropped, reopened.
struct SessionPass {
    name: &'static str,
    vars: Vec<Var>,
    dml: Vec<Op>,
    max_ops: usize,
    configs: Vec<Cfg>,
    ends: Vec<End>,
    /// run before the (possibly capped) history passes
    early: bool,
}

fn session_passes(ctx: &Ctx) -> Vec<SessionPass> {
    let on = Cfg { wal: true, ..Cfg::DEFAULT };
    let ends = vec![End::Drop, End::Close, End::Checkpoint];
    let small = vec![Op::Ins(1), Op::Ins(2), Op::Upd(1), Op::Del(1), Op::Prep(2, 3)];
    let base = SessionPass { name: "session", vars: vec![Var::PkIdx], dml: small.clone(), max_ops: 3, configs: vec![on, Cfg { autoflush: 1, ..on }, Cfg::DEFAULT], ends: vec![End::Drop, End::Close], early: true };
    if ctx.quick() {
        vec![base]
    } else {
        let wide = vec![Op::Ins(1), Op::Ins(2), Op::Ins2(2, 3), Op::Upd(1), Op::UpdAll, Op::Del(1), Op::Trunc, Op::Prep(2, 3), Op::TxnIns(3)];
        let cfgs = vec![on, Cfg { autoflush: 1, ..on }, Cfg { sync: 1, ..on }, Cfg { threshold: 1, ..on }, Cfg { sync: 1, autoflush: 1, threshold: 2, ..on }, Cfg { sync: 1, ..Cfg::DEFAULT }, Cfg::DEFAULT];
        vec![
            base,
            SessionPass { name: "session-wide", vars: ALL_VARS.to_vec(), dml: wide, max_ops: 3, configs: cfgs, ends: ends.clone(), early: false },
            SessionPass { name: "session-deep", vars: vec![Var::Pk, Var::PkIdx], dml: small, max_ops: 4, configs: vec![on, Cfg { autoflush: 1, ..on }, Cfg::DEFAULT], ends, early: false },
        ]
    }
}

/// histories of one (pass, configuration) starting with `first`, shortest first
fn session_histories(p: &SessionPass, cfg: Cfg, first: Op) -> Vec<Vec<Op>> {
    let mut letters: Vec<Op> = p.dml.clone();
    letters.extend(ALL_SWITCHES.iter().filter(|s| s.changes(cfg)).map(|s| Op::Sw(*s)));
    let mut level: Vec<Vec<Op>> = vec![vec![first]];
    let mut out = vec![];
    for len in 1..=p.max_ops {
        for h in &level {
            if h.iter().any(|o| !o.is_switch()) {
                out.push(h.clone());
            }
        }
        if len == p.max_ops {
            break;
        }
        let mut next = vec![];
        for h in &level {
            let has_sw = h.iter().any(|o| o.is_switch());
            for &l in &letters {
                if l.is_switch() && has_sw {
                    continue;
                }
                let mut h2 = h.clone();
                h2.push(l);
                next.push(h2);
            }
        }
        level = next;
    }
    out
}

fn run_session_pass(ctx: &Ctx, eng: &mut Engine, rep: &mut Reporter, p: &SessionPass, group_base: u64) -> bool {
    let mut group = group_base;
    for &var in &p.vars {
        for &cfg in &p.configs {
            let mut firsts: Vec<Op> = p.dml.clone();
            firsts.extend(ALL_SWITCHES.iter().filter(|s| s.changes(cfg)).map(|s| Op::Sw(*s)));
            for first in firsts {
                group += 1;
                // a whole subtree (same first letter) belongs to one worker: prefix verdicts and reference runs are local
                if !ctx.mine(group) {
                    continue;
                }
                let mut diverged: BTreeSet<(End, Vec<Op>)> = BTreeSet::new();
                for ops in session_histories(p, cfg, first) {
                    if ctx.expired() {
                        rep.capped(&format!("deadline in pass {}", p.name));
                        return false;
                    }
                    let sw = ops.iter().find_map(|o| if let Op::Sw(s) = o { Some(*s) } else { None });
                    let sw_pos = ops.iter().position(|o| o.is_switch());
                    for &end in &p.ends {
                        let key = RunKey { var, ops: ops.clone(), cfg, end };
                        if key.is_reference() {
                            continue;
                        }
                        if (1..ops.len()).any(|n| diverged.contains(&(end, ops[..n].to_vec()))) {
                            rep.pruned(1);
                            continue;
                        }
                        let violated = check_case(eng, rep, &key, p.name, true);
                        rep.case(vcore::util::hash_of(&key), true);
                        rep.add_states(key.steps() as u64 + 1);
                        rep.add_transitions(key.steps() as u64 + 1);
                        rep.add_traces_validated(1);
                        rep.count("session_runs", 1);
                        rep.count(&format!("session cfg {} end {}", cfg.label(), end.name()), 1);
                        if let (Some(s), Some(pos)) = (sw, sw_pos) {
                            rep.count(&format!("session switch {}", s.label()), 1);
                            if pos > 0 && pos + 1 < ops.len() {
                                rep.count("session_runs_with_switch_between_dml", 1);
                            }
                        }
                        rep.outcome(&format!("session/{}/{}/{}/{}", cfg.label(), sw.map(|s| s.label()).unwrap_or("no-switch"), end.name(), if violated { "diverged" } else { "equal" }));
                        if violated {
                            rep.count("diverged_runs", 1);
                            diverged.insert((end, ops.clone()));
                        }
                    }
                }
            }
        }
    }
    true
}

// ---------------------------------------------------------------------------
// large schema: 70 tables + 70 indexes (> 64-entry open-file LRU), harness-computed contents
// ---------------------------------------------------------------------------

const BIG_TABLES: usize = 70;

fn open_data_files(dir: &std::path::Path) -> usize {
    let mut n = 0;
    if let Ok(rd) = std::fs::read_dir("/proc/self/fd") {
        for e in rd.flatten() {
            if let Ok(p) = std::fs::read_link(e.path()) {
                if p.starts_with(dir) && p.extension().map(|x| x == "tbd" || x == "idx").unwrap_or(false) {
                    n += 1;
                }
            }
        }
    }
    n
}

type Model = Vec<BTreeMap<i64, (i64, String)>>;

struct Big<'r> {
    t: TestDb,
    model: Model,
    cfg: Cfg,
    order: &'static str,
    rep: &'r mut Reporter,
    failed: bool,
    stmts: u64,
    max_open: usize,
}

impl<'r> Big<'r> {
    fn fail(&mut self, kind: &str, stmt_kind: &str, phase: &str, sql: &str, expected: &str, observed: &str) {
        if self.failed {
            return;
        }
        self.failed = true;
        let (cfg, order) = (self.cfg, self.order);
        self.rep.violation(
            PROP,
            "large-schema",
            &format!("{PROP}/large-schema/{}/{kind}/{stmt_kind}@{phase}", cfg.label()),
            || json!({"scenario": "large-schema", "cfg": cfg.to_json(), "order": order}),
            &format!("[{sql}] {expected}"),
            &format!("[{sql}] {observed}"),
        );
    }
    fn expect_affected(&mut self, sql: &str, n: usize, stmt_kind: &str, phase: &str) {
        self.stmts += 1;
        let r = self.t.exec(sql);
        match &r {
            Res::Affected(m, _) if *m == n => {}
            o => {
                let kind = if o.ok() { "rows" } else { "error" };
                self.fail(kind, stmt_kind, phase, sql, &format!("Affected({n})"), &o.show());
            }
        }
    }
    fn expect_rows(&mut self, sql: &str, want: Vec<Vec<refmodel::val::V>>, kind: &str, stmt_kind: &str, phase: &str) {
        self.stmts += 1;
        let r = self.t.exec(sql);
        match &r {
            Res::Rows(rows) if refmodel::val::bag(rows) == refmodel::val::bag(&want) => {}
            o => {
                let k = if o.ok() { kind } else { "error" };
                self.fail(k, stmt_kind, phase, sql, &refmodel::val::show_rows(&refmodel::val::bag(&want)), &o.show());
            }
        }
        let open = open_data_files(&self.t.dir);
        self.max_open = self.max_open.max(open);
    }
    fn full_rows(&self, i: usize) -> Vec<Vec<refmodel::val::V>> {
        use refmodel::val::V;
        self.model[i].iter().map(|(id, (a, s))| vec![V::Int(*id), V::Int(*a), V::Text(s.clone())]).collect()
    }
    fn check_table(&mut self, i: usize, phase: &str) {
        use refmodel::val::V;
        let rows = self.full_rows(i);
        self.expect_rows(&format!("SELECT * FROM m{i:02}"), rows.clone(), "rows", "SELECT*", phase);
        self.expect_rows(&format!("SELECT COUNT(*) FROM m{i:02}"), vec![vec![V::Int(rows.len() as i64)]], "count", "COUNT", phase);
        let ids: Vec<i64> = self.model[i].keys().copied().collect();
        for id in ids {
            let (a, s) = self.model[i][&id].clone();
            self.expect_rows(&format!("SELECT * FROM m{i:02} WHERE id = {id}"), vec![vec![V::Int(id), V::Int(a), V::Text(s.clone())]], "pk-lookup", "SELECT-pk", phase);
            self.expect_rows(&format!("SELECT id FROM m{i:02} WHERE a = {a}"), vec![vec![V::Int(id)]], "index-lookup", "SELECT-idx", phase);
        }
        self.expect_rows(&format!("SELECT * FROM m{i:02} WHERE id = 99"), vec![], "pk-lookup", "SELECT-pk-miss", phase);
    }
}

/// table visiting order: round-robin ascending, or a stride permutation (37 is coprime to 70)
fn visit(order: &str, j: usize) -> usize {
    if order == "stride37" {
        (j * 37) % BIG_TABLES
    } else {
        j
    }
}

fn large_schema(ctx: &Ctx, rep: &mut Reporter, cfg: Cfg, order: &'static str) {
    let Ok(t) = TestDb::create(&ctx.scratch, "big") else {
        rep.violation(PROP, "large-schema", &format!("{PROP}/large-schema/{}/error/create", cfg.label()), || json!({"scenario": "large-schema", "cfg": cfg.to_json(), "order": order}), "Database::create succeeds", "Err");
        return;
    };
    let mut b = Big { t, model: vec![BTreeMap::new(); BIG_TABLES], cfg, order, rep, failed: false, stmts: 0, max_open: 0 };
    if let Err(e) = apply_cfg(&b.t, cfg) {
        b.fail("error", "PRAGMA", "setup", "pragmas", "accepted", &e);
        return;
    }
    for i in 0..BIG_TABLES {
        for sql in [format!("CREATE TABLE m{i:02}(id INT PRIMARY KEY, a INT, s TEXT)"), format!("CREATE INDEX mi{i:02} ON m{i:02}(a)")] {
            b.stmts += 1;
            let r = b.t.exec(&sql);
            if !r.ok() {
                b.fail("error", "DDL", "setup", &sql, "Done", &r.show());
                return;
            }
        }
    }
    // three rounds of INSERT / SELECT (same and a far-away table) / UPDATE of a non-indexed column
    for r in 0..3i64 {
        for j in 0..BIG_TABLES {
            let i = visit(order, j);
            let (id, a, s) = (r + 1, (100 * i as i64) + r, format!("s{i}_{r}"));
            b.expect_affected(&format!("INSERT INTO m{i:02} (id,a,s) VALUES ({id},{a},'{s}')"), 1, "INSERT", "rounds");
            b.model[i].insert(id, (a, s));
            let rows = b.full_rows(i);
            b.expect_rows(&format!("SELECT * FROM m{i:02}"), rows, "rows", "SELECT*", "rounds");
            let far = (i + 35) % BIG_TABLES;
            let rows = b.full_rows(far);
            b.expect_rows(&format!("SELECT * FROM m{far:02}"), rows, "rows", "SELECT*-far", "rounds");
            if r >= 1 {
                let ns = format!("u{i}_{r}");
                b.expect_affected(&format!("UPDATE m{i:02} SET s = '{ns}' WHERE id = {r}"), 1, "UPDATE", "rounds");
                if let Some(e) = b.model[i].get_mut(&r) {
                    e.1 = ns;
                }
            }
            if b.failed {
                break;
            }
        }
    }
    for i in 0..BIG_TABLES {
        b.check_table(i, "before-reopen");
    }
    let max_open_before = b.max_open;
    // reopen; only SELECT / UPDATE afterwards (an INSERT after a reopen is known finding KF-C04-01, not C42's subject)
    if !b.failed {
        match b.t.reopen() {
            Err(e) => b.fail("error", "reopen", "reopen", "drop + Database::open", "Ok", &e),
            Ok(()) => {
                if let Err(e) = apply_cfg(&b.t, cfg) {
                    b.fail("error", "PRAGMA", "after-reopen", "pragmas", "accepted", &e);
                }
                b.rep.count("large_schema_reopens", 1);
                for i in 0..BIG_TABLES {
                    b.check_table(i, "after-reopen");
                }
                for j in 0..BIG_TABLES {
                    let i = visit(order, j);
                    let ns = format!("v{i}");
                    b.expect_affected(&format!("UPDATE m{i:02} SET s = '{ns}' WHERE id = 3"), 1, "UPDATE", "after-reopen");
                    if let Some(e) = b.model[i].get_mut(&3) {
                        e.1 = ns;
                    }
                    let far = (i + 35) % BIG_TABLES;
                    let rows = b.full_rows(far);
                    b.expect_rows(&format!("SELECT * FROM m{far:02}"), rows, "rows", "SELECT*-far", "after-reopen");
                }
                for i in 0..BIG_TABLES {
                    b.check_table(i, "after-reopen-update");
                }
            }
        }
    }
    let (stmts, max_open, failed) = (b.stmts, b.max_open, b.failed);
    drop(b);
    rep.case(vcore::util::hash_of(&("large-schema", cfg, order)), true);
    rep.add_states(stmts);
    rep.add_transitions(stmts);
    rep.add_traces_validated(1);
    rep.count("large_schema_scenarios", 1);
    rep.count("large_schema_statements", stmts);
    rep.outcome(&format!("large-schema/max-open-data-files={max_open}"));
    // 140 data files are touched round-robin but at most 64 stay open: every further touch of a closed file evicts one
    if max_open_before > 0 && max_open_before <= 64 {
        rep.count("large_schema_runs_with_lru_evictions", 1);
    }
    rep.outcome(&format!("large-schema/{}/{}/{}", cfg.label(), order, if failed { "mismatch" } else { "as-expected" }));
}

fn large_schema_cases() -> Vec<(Cfg, &'static str)> {
    let on = Cfg { wal: true, ..Cfg::DEFAULT };
    let cfgs = [Cfg::DEFAULT, on, Cfg { sync: 1, ..on }, Cfg { threshold: 1, ..on }, Cfg { sync: 2, autoflush: 1, threshold: 2, ..on }, Cfg { sync: 1, ..Cfg::DEFAULT }];
    let mut v = vec![];
    for c in cfgs {
        for o in ["ascending", "stride37"] {
            v.push((c, o));
        }
    }
    v
}

struct C42;

impl Check for C42 {
    fn specs(&self) -> Vec<Spec> {
        let mut s = Spec::new(
            PROP,
            "model_checking",
            "a case is one (history, configuration) execution compared with the same history under the default configuration (WAL off). History = CREATE TABLE t variant (no PK / INT PK / PK + secondary index / AUTO_INCREMENT PK / PK with 1.5 KB TEXT values) followed by every sequence of <= d ops over {INSERT k, 2-row INSERT, prepared INSERT executed twice (cached-plan path), UPDATE by key, UPDATE all, DELETE by key, DELETE all, TRUNCATE, CREATE INDEX, ALTER ADD COLUMN, INSERT without id, BEGIN..COMMIT around a write, CREATE TABLE u, INSERT INTO u}, keys in {1,2,3}; configurations = wal {off,on} x synchronous {OFF,NORMAL,FULL} x wal_autoflush {on,off} x wal_checkpoint_threshold {1,2,default} (37 non-default valid combinations) — all of them up to the stated depth, a covering subset (each single deviation + corners) at the deepest level. Depth-first; a configuration that diverged on a prefix is not extended. Session pass: every history of <= 3 letters over {INSERT 1, INSERT 2, UPDATE 1, DELETE 1, prepared INSERT of 2 and 3} (thorough: a 9-letter DML alphabet, and depth 4 over the 5-letter one) with at most one mid-session PRAGMA switch (wal_autoflush=OFF|ON, synchronous=OFF, wal=ON|OFF; at every position, only switches that change the starting configuration) under the starting configurations {wal=ON, wal=ON+wal_autoflush=OFF, default} (thorough: 7), ended by {drop, close()} (thorough: also checkpoint()+drop), reopened under the default configuration and fully observed; reference = the same DML under the default configuration, dropped and reopened. Plus 12 large-schema scenarios (70 tables + 70 indexes, round-robin / stride INSERT-SELECT-UPDATE, reopen) compared with harness-computed contents. Distinct = distinct (history, configuration); non-trivial = at least one op after CREATE. states = history prefixes executed, transitions = statements executed on the real Database.",
        );
        s.assumptions = &[
            "differential oracle: twin database under the default configuration; no reference semantics",
            "statement results are compared by class (rows as bags, affected counts, DDL tag); error texts are not compared",
            "session pass: pragmas are process-memory only, so the reopened database runs under the default configuration; whatever configuration (switched or not) and whatever ending the first session had, the reopened directory must show the state the same DML leaves under the default configuration",
            "large-schema oracle: contents computed by the harness (each table gets known rows; UPDATE touches a non-indexed column); no INSERT after the reopen (that is known finding KF-C04-01 of property C04)",
            "the 64-entry LRU is observed through /proc/self/fd (open .tbd/.idx files of the database directory)",
        ];
        s.cap_quick_s = 90;
        s.cap_thorough_s = 1500;
        vec![s]
    }

    fn run(&self, ctx: &Ctx, rep: &mut Reporter) {
        // recorded first so that a capped run still carries a sample
        rep.sample(|| json!({"variant": "pkidx", "ops": ["INS1", "PREP_23", "TXN_INS3"], "cfg": "wal=ON,synchronous=OFF,wal_checkpoint_threshold=1", "meaning": "CREATE t + index; INSERT 1; prepared INSERT of 2 then 3; BEGIN, INSERT 3, COMMIT (auto-checkpoint); observe — vs. the same under the default configuration"}));
        for c in ["baseline_histories", "baseline_index_plans_for_a_lookup", "prepared_inserts_through_cached_plan", "runs_with_wal_frames_at_end", "large_schema_scenarios", "large_schema_runs_with_lru_evictions", "large_schema_reopens", "session_runs", "session_reopens", "session_runs_with_switch_between_dml", "session switch wal_autoflush=OFF", "session switch wal_autoflush=ON"] {
            rep.expect_nonzero(c);
        }
        let ps = passes(ctx);
        rep.bound("passes", json!(ps.iter().map(|p| json!({"name": p.name, "variants": p.vars.iter().map(|v| v.name()).collect::<Vec<_>>(), "alphabet": p.alphabet.iter().map(|o| o.name()).collect::<Vec<_>>(), "max_ops_after_create": p.max_ops, "configurations": p.configs.iter().map(|c| c.label()).collect::<Vec<_>>()})).collect::<Vec<_>>()));
        rep.bound("session_passes", json!(session_passes(ctx).iter().map(|p| json!({"name": p.name, "variants": p.vars.iter().map(|v| v.name()).collect::<Vec<_>>(), "dml": p.dml.iter().map(|o| o.name()).collect::<Vec<_>>(), "switches (at most one per history, at every position)": ALL_SWITCHES.iter().map(|s| s.label()).collect::<Vec<_>>(), "max_ops": p.max_ops, "starting configurations": p.configs.iter().map(|c| c.label()).collect::<Vec<_>>(), "endings": p.ends.iter().map(|e| e.name()).collect::<Vec<_>>()})).collect::<Vec<_>>()));
        rep.bound("large_schema", json!({"tables": BIG_TABLES, "indexes": BIG_TABLES, "lru_capacity": 64, "scenarios": large_schema_cases().iter().map(|(c, o)| format!("{}/{}", c.label(), o)).collect::<Vec<_>>()}));
        // large-schema scenarios first (few, cheap), split across workers
        for (i, (cfg, order)) in large_schema_cases().into_iter().enumerate() {
            if ctx.mine(1_000_000 + i as u64) && ctx.opt("only").map(|o| o == "large-schema").unwrap_or(true) {
                large_schema(ctx, rep, cfg, order);
            }
        }
        if let Some(path) = ctx.opt("cases") {
            // development aid: `--opt cases=<file>` judges an explicit JSON array of run keys (split by index)
            let list: Vec<Value> = serde_json::from_slice(&std::fs::read(path).unwrap_or_default()).unwrap_or_default();
            let mut eng = Engine::new(ctx);
            for (i, c) in list.iter().enumerate() {
                if !ctx.mine(i as u64) {
                    continue;
                }
                if ctx.expired() {
                    rep.capped("deadline in explicit case list");
                    break;
                }
                if let Some(key) = RunKey::from_json(c) {
                    check_case(&mut eng, rep, &key, "cases", true);
                    rep.case(vcore::util::hash_of(&key), true);
                }
            }
            return;
        }
        let mut w = Walker { eng: Engine::new(ctx), rep, case_idx: 0, capped: false };
        let sps = session_passes(ctx);
        for (i, sp) in sps.iter().enumerate() {
            if !sp.early || w.capped || ctx.opt("only").map(|o| o != sp.name).unwrap_or(false) {
                continue;
            }
            if !run_session_pass(ctx, &mut w.eng, w.rep, sp, 2_000_000 + 100_000 * i as u64) {
                w.capped = true;
            }
        }
        for pass in &ps {
            // development aid: `--opt only=<pass name>` restricts the run to one pass
            if ctx.opt("only").map(|o| o != pass.name).unwrap_or(false) {
                continue;
            }
            for &var in &pass.vars {
                let mut ops = vec![];
                w.dfs(pass, var, &mut ops, &BTreeSet::new(), false);
            }
        }
        for (i, sp) in sps.iter().enumerate() {
            if sp.early || w.capped || ctx.opt("only").map(|o| o != sp.name).unwrap_or(false) {
                continue;
            }
            if !run_session_pass(ctx, &mut w.eng, w.rep, sp, 2_000_000 + 100_000 * i as u64) {
                w.capped = true;
            }
        }
        let (runs, shrink_runs, wf) = (w.eng.runs, w.eng.shrink_runs, w.eng.runs_with_wal_frames);
        drop(w);
        rep.count("session_reopens", SESSION_REOPENS.with(|c| c.get()));
        rep.count("database_executions", runs);
        rep.count("executions_spent_shrinking", shrink_runs);
        rep.count("runs_with_wal_frames_at_end", wf);
        rep.bound("configurations_covered", json!(all_configs().len()));
        rep.count("prepared_inserts_through_cached_plan", CACHED_PLAN_EXECS.with(|c| c.get()));
    }

    fn replay(&self, ctx: &Ctx, case: &Value, rep: &mut Reporter) {
        if case["scenario"].as_str() == Some("large-schema") {
            let cfg = Cfg::from_json(&case["cfg"]);
            let order = if case["order"].as_str() == Some("stride37") { "stride37" } else { "ascending" };
            large_schema(ctx, rep, cfg, order);
            return;
        }
        let Some(key) = RunKey::from_json(&case["run"]).or_else(|| RunKey::from_json(case)) else {
            rep.note("replay: case does not parse");
            return;
        };
        let mut eng = Engine::new(ctx);
        let pass = case["pass"].as_str().unwrap_or("replay").to_string();
        let v = check_case(&mut eng, rep, &key, &pass, true);
        rep.case(vcore::util::hash_of(&key), true);
        rep.add_states(key.steps() as u64);
        rep.add_transitions(key.steps() as u64);
        rep.add_traces_validated(1);
        rep.outcome(if v { "diverged" } else { "equal" });
    }
}

fn main() {
    vcore::main(&C42)
}
