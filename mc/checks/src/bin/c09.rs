//! C09 — declared constraints hold exactly (PRIMARY KEY, UNIQUE, NOT NULL, CHECK, FOREIGN KEY).
//!
//! Engine SQLH: per schema ("scenario") every DML history up to a depth over a small
//! collision-forcing alphabet is executed on a fresh real `Database` in lock-step with the
//! relational reference model `refmodel::sql::rel`.  Oracle, both directions, on every step:
//!   * a write succeeds IFF the model says the resulting state satisfies every declared
//!     constraint (Ok/Err only, never the error class);
//!   * after every step the observed table contents (`SELECT *` bags) satisfy every declared
//!     constraint by an INDEPENDENT re-check written here (`Decl`), not by the model.
//! Histories are never merged (hidden state: tombstones, stale index entries), exploration
//! stops at the first divergence of a history, failing histories are shrunk to a 1-minimal
//! op pattern that names the signature.
//!
//! Options (development / self test only, never used by the registered runs):
//!   `--opt scenario=<name>` one scenario, `--opt pass=<full|deep|core>`, `--opt maxdepth=N`,
//!   `--opt verbose=1` (every cut history becomes a note),
//!   `--opt plant=<pk-off|check-weaker|check-stronger|fk-off>`: perturbs the schema given to the
//!   REAL database only (PRIMARY KEY dropped, CHECK (a >= 0) / (a > 1) instead of (a > 0), foreign keys
//!   switched off) — the harness must then report false-accept / false-reject.
use checks::sqlh::{Res, TestDb};
use refmodel::sql::expr as E;
use refmodel::sql::rel::{ColumnDef, CreateTable, Delete, Insert, OnDelete, State, Stmt, TableDef, Update};
use refmodel::sql::Ty;
use refmodel::val::{bag, show_rows, Row, V};
use std::collections::BTreeMap;
use vcore::{json, Check, Ctx, Reporter, Spec, Value};

// ---------------------------------------------------------------------------
// independent constraint re-check (harness side; deliberately not the model)
// ---------------------------------------------------------------------------

type CheckFn = Box<dyn Fn(&[V]) -> Option<bool> + Sync + Send>;

enum Decl {
    /// PRIMARY KEY (pk = true: also NOT NULL) or UNIQUE over column positions
    Key { table: &'static str, cols: Vec<usize>, pk: bool },
    NotNull { table: &'static str, col: usize },
    /// CHECK: `None` = UNKNOWN (passes), `Some(false)` = violated
    Check { table: &'static str, form: &'static str, f: CheckFn },
    Fk { child: &'static str, col: usize, parent: &'static str, pcol: usize },
}

fn num(v: &V) -> Option<f64> {
    match v {
        V::Int(i) => Some(*i as f64),
        V::Float(f) => Some(*f),
        _ => None,
    }
}
fn txt(v: &V) -> Option<&str> {
    match v {
        V::Text(s) => Some(s.as_str()),
        _ => None,
    }
}
/// same SQL value (1 = 1.0, text bytewise); NULL equals nothing
fn same_key(a: &V, b: &V) -> bool {
    match (a, b) {
        (V::Null, _) | (_, V::Null) => false,
        (V::Text(x), V::Text(y)) => x == y,
        _ => match (num(a), num(b)) {
            (Some(x), Some(y)) => x == y,
            _ => false,
        },
    }
}

/// First violated declaration of the observed tables, rendered; `None` = all hold.
fn first_violation(decls: &[Decl], tables: &BTreeMap<String, Vec<Row>>) -> Option<String> {
    let empty: Vec<Row> = vec![];
    for d in decls {
        match d {
            Decl::Key { table, cols, pk } => {
                let rows = tables.get(*table).unwrap_or(&empty);
                if *pk {
                    for r in rows {
                        if cols.iter().any(|&c| r[c].is_null()) {
                            return Some(format!("PRIMARY KEY of {table} holds NULL in row {}", refmodel::val::show_row(r)));
                        }
                    }
                }
                for i in 0..rows.len() {
                    if cols.iter().any(|&c| rows[i][c].is_null()) {
                        continue;
                    }
                    for j in i + 1..rows.len() {
                        if cols.iter().all(|&c| same_key(&rows[i][c], &rows[j][c])) {
                            return Some(format!("{} of {table} duplicated: rows {} and {}", if *pk { "PRIMARY KEY" } else { "UNIQUE key" }, refmodel::val::show_row(&rows[i]), refmodel::val::show_row(&rows[j])));
                        }
                    }
                }
            }
            Decl::NotNull { table, col } => {
                for r in tables.get(*table).unwrap_or(&empty) {
                    if r[*col].is_null() {
                        return Some(format!("NOT NULL column {col} of {table} holds NULL in row {}", refmodel::val::show_row(r)));
                    }
                }
            }
            Decl::Check { table, form, f } => {
                for r in tables.get(*table).unwrap_or(&empty) {
                    if f(r) == Some(false) {
                        return Some(format!("CHECK ({form}) of {table} is FALSE for row {}", refmodel::val::show_row(r)));
                    }
                }
            }
            Decl::Fk { child, col, parent, pcol } => {
                let prow = tables.get(*parent).unwrap_or(&empty);
                for r in tables.get(*child).unwrap_or(&empty) {
                    if r[*col].is_null() {
                        continue;
                    }
                    if !prow.iter().any(|p| same_key(&p[*pcol], &r[*col])) {
                        return Some(format!("FOREIGN KEY {child}.{col} -> {parent}.{pcol}: row {} has no parent", refmodel::val::show_row(r)));
                    }
                }
            }
        }
    }
    None
}

// ---------------------------------------------------------------------------
// scenarios
// ---------------------------------------------------------------------------

#[derive(Clone, Copy, PartialEq, Eq, Debug)]
enum Kind {
    Write,
    Begin,
    Rollback,
    Commit,
}

struct Op {
    /// unique within the scenario; recorded in replay files
    name: String,
    /// label for the signature pattern; `#v` marks a key value that is renamed A, B, .. by first appearance
    label: String,
    /// counter family ("insert", "update-key", "update-nonkey", "delete", "truncate", "begin", ..)
    family: &'static str,
    stmt: Stmt,
    sql: String,
    kind: Kind,
}

struct Pass {
    name: &'static str,
    /// op names left out of the alphabet (or, if `only` is non-empty, the alphabet itself)
    only: Vec<&'static str>,
    without: Vec<&'static str>,
    depth_quick: usize,
    depth_thorough: usize,
}

struct Scenario {
    /// signature component: constraint kind and CHECK form, e.g. `pk`, `check-col[a>0]`
    name: String,
    ddl: Vec<String>,
    /// rows loaded (on both sides, unjudged) before every history
    setup: Vec<Stmt>,
    defs: Vec<TableDef>,
    decls: Vec<Decl>,
    tables: Vec<&'static str>,
    ops: Vec<Op>,
    passes: Vec<Pass>,
    /// full cross product of the value domain per table, for the closure-vs-model self test
    domain_rows: Vec<(&'static str, Vec<Row>)>,
}

/// ops that may stand in for `name` in a minimal pattern (narrower statement of the same kind)
fn simpler_names(name: &str) -> &'static [&'static str] {
    match name {
        "delall" => &["del1", "del2", "delnull", "delv1"],
        "delpall" => &["delp1"],
        "updkeyall1" => &["updkey21", "updkeynull1", "updkey11"],
        "updallnull" => &["upd1null"],
        _ => &[],
    }
}
impl Scenario {
    fn simpler(&self, oi: usize) -> Vec<usize> {
        simpler_names(&self.ops[oi].name).iter().filter_map(|n| self.ops.iter().position(|o| o.name == *n)).collect()
    }
    fn reduces_to(&self, h: usize, p: usize) -> bool {
        h == p || self.simpler(h).contains(&p)
    }
}

fn ins(table: &str, row: Vec<V>) -> Stmt {
    Stmt::Insert(Insert::literals(table, &[], vec![row]))
}
fn ins_cols(table: &str, cols: &[&str], row: Vec<V>) -> Stmt {
    Stmt::Insert(Insert::literals(table, cols, vec![row]))
}
fn upd(table: &str, col: &str, v: V, where_: Option<E::Expr>) -> Stmt {
    Stmt::Update(Update::new(table, vec![(col, E::lit(v))], where_))
}
fn del(table: &str, where_: Option<E::Expr>) -> Stmt {
    Stmt::Delete(Delete::new(table, where_))
}
fn col_eq(c: &str, v: V) -> Option<E::Expr> {
    Some(if v.is_null() { E::is_null(E::col(c)) } else { E::eq(E::col(c), E::lit(v)) })
}
fn op(name: &str, label: &str, family: &'static str, stmt: Stmt) -> Op {
    let kind = match &stmt {
        Stmt::Begin => Kind::Begin,
        Stmt::Rollback => Kind::Rollback,
        Stmt::Commit => Kind::Commit,
        _ => Kind::Write,
    };
    Op { name: name.to_string(), label: label.to_string(), family, sql: stmt.to_sql(), stmt, kind }
}
fn txn_ops(with_commit: bool) -> Vec<Op> {
    let mut v = vec![op("begin", "begin", "begin", Stmt::Begin), op("rollback", "rollback", "rollback", Stmt::Rollback)];
    if with_commit {
        v.push(op("commit", "commit", "commit", Stmt::Commit));
    }
    v
}
fn vshow(v: &V) -> String {
    match v {
        V::Null => "null".into(),
        o => o.show().replace('\'', ""),
    }
}
fn cross(doms: &[Vec<V>]) -> Vec<Row> {
    let mut out: Vec<Row> = vec![vec![]];
    for d in doms {
        let mut next = vec![];
        for r in &out {
            for v in d {
                let mut r2 = r.clone();
                r2.push(v.clone());
                next.push(r2);
            }
        }
        out = next;
    }
    out
}
fn std_passes(dq: usize, dt: usize) -> Vec<Pass> {
    vec![Pass { name: "full", only: vec![], without: vec![], depth_quick: dq, depth_thorough: dt }]
}
/// full alphabet to (dq, dt) plus a thorough-only pass one step deeper over a reduced alphabet
fn deep_passes(dq: usize, dt: usize, without: &[&'static str]) -> Vec<Pass> {
    vec![Pass { name: "full", only: vec![], without: vec![], depth_quick: dq, depth_thorough: dt }, Pass { name: "deep", only: vec![], without: without.to_vec(), depth_quick: 0, depth_thorough: dt + 1 }]
}
/// quick-tier pass over a handful of ops, deep enough for the 4/5-step patterns (delete-then-reinsert,
/// BEGIN..ROLLBACK around a key update, child deleted before its parent)
fn core_pass(only: &[&'static str], dq: usize, dt: usize) -> Pass {
    Pass { name: "core", only: only.to_vec(), without: vec![], depth_quick: dq, depth_thorough: dt }
}

/// planted perturbations of the REAL side only (self test of the harness; `--opt plant=<name>`)
fn plant(ctx_plant: Option<&str>, name: &str) -> bool {
    ctx_plant == Some(name)
}

fn key_scenario(name: &str, ddl: &str, def: TableDef, decls: Vec<Decl>, k1: V, k2: V, nullable: bool, lite: bool, passes: Vec<Pass>) -> Scenario {
    // t(<key> .., a INT): key column is column 0 named `k`
    let l = |v: &V| format!("#{}", vshow(v));
    let mut ops = vec![
        op("ins1", &format!("ins({})", l(&k1)), "insert", ins("t", vec![k1.clone(), V::Int(0)])),
        op("ins2", &format!("ins({})", l(&k2)), "insert", ins("t", vec![k2.clone(), V::Int(0)])),
        op("insnull", "ins(null)", "insert", ins("t", vec![V::Null, V::Int(0)])),
        op("updkey12", &format!("updkey({}>{})", l(&k1), l(&k2)), "update-key", upd("t", "k", k2.clone(), col_eq("k", k1.clone()))),
        op("updkey21", &format!("updkey({}>{})", l(&k2), l(&k1)), "update-key", upd("t", "k", k1.clone(), col_eq("k", k2.clone()))),
        op("updkey11", &format!("updkey({}>{})", l(&k1), l(&k1)), "update-key", upd("t", "k", k1.clone(), col_eq("k", k1.clone()))),
        op("updkey22", &format!("updkey({}>{})", l(&k2), l(&k2)), "update-key", upd("t", "k", k2.clone(), col_eq("k", k2.clone()))),
        op("updkeyall1", &format!("updkey(all>{})", l(&k1)), "update-key", upd("t", "k", k1.clone(), None)),
        op("updnonkey1", &format!("updnonkey({})", l(&k1)), "update-nonkey", upd("t", "a", V::Int(1), col_eq("k", k1.clone()))),
        op("del1", &format!("del({})", l(&k1)), "delete", del("t", col_eq("k", k1.clone()))),
        op("del2", &format!("del({})", l(&k2)), "delete", del("t", col_eq("k", k2.clone()))),
        op("delall", "del(all)", "delete", del("t", None)),
    ];
    if nullable {
        ops.push(op("updkey1null", &format!("updkey({}>null)", l(&k1)), "update-key", upd("t", "k", V::Null, col_eq("k", k1.clone()))));
        ops.push(op("updkeynull1", &format!("updkey(null>{})", l(&k1)), "update-key", upd("t", "k", k1.clone(), col_eq("k", V::Null))));
        ops.push(op("delnull", "del(null)", "delete", del("t", col_eq("k", V::Null))));
    }
    ops.extend(txn_ops(!lite));
    if lite {
        ops.retain(|o| !["updkey11", "updkey22", "updkeyall1", "del2"].contains(&o.name.as_str()));
    }
    Scenario { name: name.to_string(), ddl: vec![ddl.to_string()], setup: vec![], defs: vec![def], decls, tables: vec!["t"], ops, passes, domain_rows: vec![] }
}

/// one-column CHECK scenario `t(a <ty> <CHECK>)`; `table_level` puts the CHECK after the column list
fn check_scenario(form: &'static str, ty: Ty, expr: E::Expr, f: CheckFn, values: Vec<V>, table_level: bool, passes: Vec<Pass>, real_form: Option<&str>) -> Scenario {
    let compact: String = form.chars().filter(|c| *c != ' ').collect();
    let name = format!("check-{}[{}]{}", if table_level { "table" } else { "col" }, compact, if ty == Ty::Real { "real" } else if ty == Ty::BigInt { "bigint" } else { "" });
    let real = real_form.unwrap_or(form);
    let ddl = if table_level { format!("CREATE TABLE t (a {}, CHECK ({real}))", ty.sql_name()) } else { format!("CREATE TABLE t (a {} CHECK ({real}))", ty.sql_name()) };
    let def = if table_level { TableDef::new("t").col(ColumnDef::new("a", ty)).check(expr) } else { TableDef::new("t").col(ColumnDef::new("a", ty).check(expr)) };
    let class = |v: &V| match f(&[v.clone()]) {
        Some(true) => "sat",
        Some(false) => "viol",
        None => "null",
    };
    let mut ops = vec![];
    for v in &values {
        ops.push(op(&format!("ins_{}", vshow(v)), &format!("ins({})", class(v)), "insert", ins("t", vec![v.clone()])));
    }
    for v in &values {
        ops.push(op(&format!("upd_{}", vshow(v)), &format!("upd(>{})", class(v)), "update-nonkey", upd("t", "a", v.clone(), None)));
    }
    ops.push(op("delall", "del(all)", "delete", del("t", None)));
    ops.extend(txn_ops(false));
    let domain_rows = vec![("t", cross(&[values.clone()]))];
    Scenario { name, ddl: vec![ddl], setup: vec![], defs: vec![def], decls: vec![Decl::Check { table: "t", form, f }], tables: vec!["t"], ops, passes, domain_rows }
}

fn fk_scenario(name: &str, clause: &str, od: Option<OnDelete>, passes: Vec<Pass>, fk_off: bool) -> Scenario {
    let mut ddl = vec![];
    if fk_off {
        ddl.push("SET foreign_keys = OFF".to_string());
    }
    ddl.push("CREATE TABLE p (id INT PRIMARY KEY)".to_string());
    if name == "fk-table-level" {
        ddl.push(format!("CREATE TABLE c (pid INT, x INT, FOREIGN KEY (pid) REFERENCES p(id){clause})"));
    } else {
        ddl.push(format!("CREATE TABLE c (pid INT REFERENCES p(id){clause}, x INT)"));
    }
    let p = TableDef::new("p").col(ColumnDef::new("id", Ty::Int).primary_key());
    // no ON DELETE clause = NO ACTION: the delete of a referenced parent is refused (as RESTRICT)
    let c = TableDef::new("c").col(ColumnDef::new("pid", Ty::Int).references("p", "id", od.unwrap_or(OnDelete::Restrict))).col(ColumnDef::new("x", Ty::Int));
    let i = V::Int;
    let mut ops = vec![
        op("insp1", "ins-parent(#1)", "insert", ins("p", vec![i(1)])),
        op("insp2", "ins-parent(#2)", "insert", ins("p", vec![i(2)])),
        op("insc1", "ins-child(#1)", "insert", ins("c", vec![i(1), i(0)])),
        op("insc2", "ins-child(#2)", "insert", ins("c", vec![i(2), i(0)])),
        op("inscnull", "ins-child(null)", "insert", ins("c", vec![V::Null, i(0)])),
        op("updc12", "upd-child(#1>#2)", "update-key", upd("c", "pid", i(2), col_eq("pid", i(1)))),
        op("updcx1", "upd-child-nonkey(#1)", "update-nonkey", upd("c", "x", i(1), col_eq("pid", i(1)))),
        op("updp12", "upd-parent(#1>#2)", "update-key", upd("p", "id", i(2), col_eq("id", i(1)))),
        op("delp1", "del-parent(#1)", "delete", del("p", col_eq("id", i(1)))),
        op("delpall", "del-parent(all)", "delete", del("p", None)),
        op("delc1", "del-child(#1)", "delete", del("c", col_eq("pid", i(1)))),
        op("truncp", "truncate-parent", "truncate", Stmt::Truncate { table: "p".into() }),
    ];
    ops.extend(txn_ops(false));
    Scenario {
        name: name.to_string(),
        ddl,
        setup: vec![],
        defs: vec![p, c],
        decls: vec![Decl::Key { table: "p", cols: vec![0], pk: true }, Decl::Fk { child: "c", col: 0, parent: "p", pcol: 0 }],
        tables: vec!["c", "p"],
        ops,
        passes,
        domain_rows: vec![],
    }
}

/// Multi-row DELETEs on a parent table that holds three rows (scan order 1, 10, 5 = first, second,
/// last) while only the first / only a non-first / several of them are referenced.
fn fk_multi_scenario(name: &str, clause: &str, od: Option<OnDelete>, passes: Vec<Pass>) -> Scenario {
    let i = V::Int;
    let p = TableDef::new("p").col(ColumnDef::new("id", Ty::Int).primary_key());
    let c = TableDef::new("c").col(ColumnDef::new("pid", Ty::Int).references("p", "id", od.unwrap_or(OnDelete::Restrict))).col(ColumnDef::new("x", Ty::Int));
    let id = || E::col("id");
    let ops = vec![
        op("insc1", "ins-child(first)", "insert", ins("c", vec![i(1), i(0)])),
        op("insc10", "ins-child(second)", "insert", ins("c", vec![i(10), i(0)])),
        op("insc5", "ins-child(last)", "insert", ins("c", vec![i(5), i(0)])),
        op("delcall", "del-child(all)", "delete", del("c", None)),
        op("delpall", "del-parent(all)", "delete-multi", del("p", None)),
        op("delprange", "del-parent(range-all)", "delete-multi", del("p", Some(E::ge(id(), E::int(1))))),
        op("delpge5", "del-parent(second+last)", "delete-multi", del("p", Some(E::ge(id(), E::int(5))))),
        op("delple5", "del-parent(first+last)", "delete-multi", del("p", Some(E::le(id(), E::int(5))))),
        op("delp10", "del-parent(second)", "delete", del("p", col_eq("id", i(10)))),
    ];
    Scenario {
        name: name.to_string(),
        ddl: vec!["CREATE TABLE p (id INT PRIMARY KEY)".to_string(), format!("CREATE TABLE c (pid INT REFERENCES p(id){clause}, x INT)")],
        setup: vec![ins("p", vec![i(1)]), ins("p", vec![i(10)]), ins("p", vec![i(5)])],
        defs: vec![p, c],
        decls: vec![Decl::Key { table: "p", cols: vec![0], pk: true }, Decl::Fk { child: "c", col: 0, parent: "p", pcol: 0 }],
        tables: vec!["c", "p"],
        ops,
        passes,
        domain_rows: vec![],
    }
}

fn scenarios(plant_opt: Option<&str>) -> Vec<Scenario> {
    let i = V::Int;
    let t = |s: &str| V::Text(s.to_string());
    let mut v: Vec<Scenario> = vec![];

    // ---- PRIMARY KEY --------------------------------------------------------
    v.push(key_scenario(
        "pk",
        if plant(plant_opt, "pk-off") { "CREATE TABLE t (k INT, a INT)" } else { "CREATE TABLE t (k INT PRIMARY KEY, a INT)" },
        TableDef::new("t").col(ColumnDef::new("k", Ty::Int).primary_key()).col(ColumnDef::new("a", Ty::Int)),
        vec![Decl::Key { table: "t", cols: vec![0], pk: true }],
        i(1),
        i(10),
        false,
        false,
        {
            let mut p = deep_passes(3, 4, &["updkeyall1", "insnull", "commit"]);
            p.push(core_pass(&["ins1", "ins2", "updkey12", "begin", "rollback"], 5, 6));
            p
        },
    ));
    v.push(key_scenario(
        "pk-text",
        "CREATE TABLE t (k TEXT PRIMARY KEY, a INT)",
        TableDef::new("t").col(ColumnDef::new("k", Ty::Text).primary_key()).col(ColumnDef::new("a", Ty::Int)),
        vec![Decl::Key { table: "t", cols: vec![0], pk: true }],
        t("x"),
        t("y"),
        false,
        true,
        std_passes(3, 4),
    ));
    // ---- UNIQUE (NULLs allowed, never collide) ----------------------------------
    v.push(key_scenario(
        "unique",
        "CREATE TABLE t (k INT UNIQUE, a INT)",
        TableDef::new("t").col(ColumnDef::new("k", Ty::Int).unique()).col(ColumnDef::new("a", Ty::Int)),
        vec![Decl::Key { table: "t", cols: vec![0], pk: false }],
        i(1),
        i(10),
        true,
        false,
        {
            let mut p = deep_passes(3, 4, &["updkeyall1", "updkey22", "updkey11", "updkey21", "del2", "commit"]);
            p.push(core_pass(&["ins1", "insnull", "updkey12", "del1", "begin", "rollback"], 4, 6));
            p
        },
    ));
    v.push(key_scenario(
        "unique-text",
        "CREATE TABLE t (k TEXT UNIQUE, a INT)",
        TableDef::new("t").col(ColumnDef::new("k", Ty::Text).unique()).col(ColumnDef::new("a", Ty::Int)),
        vec![Decl::Key { table: "t", cols: vec![0], pk: false }],
        t("x"),
        t("y"),
        true,
        true,
        std_passes(3, 4),
    ));
    {
        // table-level composite UNIQUE (u, v): partial NULL keys never collide
        let mut ops = vec![
            op("ins11", "ins(#1,#1)", "insert", ins("t", vec![i(1), i(1), i(0)])),
            op("ins12", "ins(#1,#2)", "insert", ins("t", vec![i(1), i(2), i(0)])),
            op("insn1", "ins(null,#1)", "insert", ins("t", vec![V::Null, i(1), i(0)])),
            op("ins1n", "ins(#1,null)", "insert", ins("t", vec![i(1), V::Null, i(0)])),
            op("updv21", "updkey(v:#2>#1)", "update-key", upd("t", "v", i(1), col_eq("v", i(2)))),
            op("updv12", "updkey(v:#1>#2)", "update-key", upd("t", "v", i(2), col_eq("v", i(1)))),
            op("updun1", "updkey(u:null>#1)", "update-key", upd("t", "u", i(1), col_eq("u", V::Null))),
            op("upda", "updnonkey(all)", "update-nonkey", upd("t", "a", i(1), None)),
            op("delv1", "del(v:#1)", "delete", del("t", col_eq("v", i(1)))),
            op("delall", "del(all)", "delete", del("t", None)),
        ];
        ops.extend(txn_ops(false));
        v.push(Scenario {
            name: "unique-composite".into(),
            ddl: vec!["CREATE TABLE t (u INT, v INT, a INT, UNIQUE (u, v))".into()],
            setup: vec![],
            defs: vec![TableDef::new("t").col(ColumnDef::new("u", Ty::Int)).col(ColumnDef::new("v", Ty::Int)).col(ColumnDef::new("a", Ty::Int)).unique(&["u", "v"])],
            decls: vec![Decl::Key { table: "t", cols: vec![0, 1], pk: false }],
            tables: vec!["t"],
            ops,
            passes: std_passes(3, 5),
            domain_rows: vec![],
        });
    }
    // ---- NOT NULL ------------------------------------------------------------
    for (name, ty, val, val2, ddl, default) in [
        ("notnull", Ty::Int, i(0), i(1), "CREATE TABLE t (id INT PRIMARY KEY, a INT NOT NULL)", None),
        ("notnull-text", Ty::Text, t("x"), t("y"), "CREATE TABLE t (id INT PRIMARY KEY, a TEXT NOT NULL)", None),
        ("notnull-default", Ty::Int, i(0), i(1), "CREATE TABLE t (id INT PRIMARY KEY, a INT NOT NULL DEFAULT 7)", Some(i(7))),
    ] {
        let mut a = ColumnDef::new("a", ty).not_null();
        if let Some(d) = &default {
            a = a.default(d.clone());
        }
        let mut ops = vec![
            op("ins1", "ins(val)", "insert", ins("t", vec![i(1), val.clone()])),
            op("ins2null", "ins(null)", "insert", ins("t", vec![i(2), V::Null])),
            op("ins2omit", "ins(omitted)", "insert", ins_cols("t", &["id"], vec![i(2)])),
            op("upd1null", "upd(>null)", "update-nonkey", upd("t", "a", V::Null, col_eq("id", i(1)))),
            op("upd1val", "upd(>val)", "update-nonkey", upd("t", "a", val2.clone(), col_eq("id", i(1)))),
            op("updallnull", "upd(all>null)", "update-nonkey", upd("t", "a", V::Null, None)),
            op("updkey12", "updkey", "update-key", upd("t", "id", i(2), col_eq("id", i(1)))),
            op("delall", "del(all)", "delete", del("t", None)),
        ];
        ops.extend(txn_ops(false));
        v.push(Scenario {
            name: name.into(),
            ddl: vec![ddl.into()],
            setup: vec![],
            defs: vec![TableDef::new("t").col(ColumnDef::new("id", Ty::Int).primary_key()).col(a)],
            decls: vec![Decl::Key { table: "t", cols: vec![0], pk: true }, Decl::NotNull { table: "t", col: 1 }],
            tables: vec!["t"],
            ops,
            passes: if default.is_none() && ty == Ty::Int { std_passes(3, 5) } else { std_passes(3, 4) },
            domain_rows: vec![],
        });
    }
    // ---- CHECK, one INT column ----------------------------------------------------
    let ints = || vec![V::Null, i(-1), i(0), i(1), i(10)];
    let a = || E::col("a");
    let n = |f: fn(f64) -> bool| -> CheckFn { Box::new(move |r: &[V]| num(&r[0]).map(f)) };
    let weak = plant(plant_opt, "check-weaker");
    let strong = plant(plant_opt, "check-stronger");
    v.push(check_scenario("a > 0", Ty::Int, E::gt(a(), E::int(0)), n(|x| x > 0.0), ints(), false, deep_passes(3, 4, &["ins_-1", "ins_10", "upd_-1", "upd_10"]), if weak { Some("a >= 0") } else if strong { Some("a > 1") } else { None }));
    v.push(check_scenario("a >= 0 AND a < 10", Ty::Int, E::and(E::ge(a(), E::int(0)), E::lt(a(), E::int(10))), n(|x| x >= 0.0 && x < 10.0), ints(), false, deep_passes(3, 4, &["ins_-1", "ins_10", "upd_-1", "upd_10"]), None));
    v.push(check_scenario("a < 10", Ty::Int, E::lt(a(), E::int(10)), n(|x| x < 10.0), ints(), false, std_passes(2, 4), None));
    v.push(check_scenario("a <= 1", Ty::Int, E::le(a(), E::int(1)), n(|x| x <= 1.0), ints(), false, std_passes(2, 4), None));
    v.push(check_scenario("a > -1", Ty::Int, E::gt(a(), E::int(-1)), n(|x| x > -1.0), ints(), false, std_passes(2, 4), None));
    v.push(check_scenario("a > 0 OR a < -5", Ty::Int, E::or(E::gt(a(), E::int(0)), E::lt(a(), E::int(-5))), n(|x| x > 0.0 || x < -5.0), ints(), false, std_passes(2, 4), None));
    v.push(check_scenario("a = 1", Ty::Int, E::eq(a(), E::int(1)), n(|x| x == 1.0), ints(), false, std_passes(2, 4), None));
    v.push(check_scenario("a <> 0", Ty::Int, E::ne(a(), E::int(0)), n(|x| x != 0.0), ints(), false, std_passes(2, 4), None));
    v.push(check_scenario("0 < a", Ty::Int, E::lt(E::int(0), a()), n(|x| 0.0 < x), ints(), false, std_passes(2, 4), None));
    v.push(check_scenario("a IN (1, 2)", Ty::Int, E::in_list(a(), vec![E::int(1), E::int(2)]), n(|x| x == 1.0 || x == 2.0), ints(), false, std_passes(2, 4), None));
    v.push(check_scenario("a BETWEEN 1 AND 5", Ty::Int, E::between(a(), E::int(1), E::int(5)), n(|x| x >= 1.0 && x <= 5.0), ints(), false, std_passes(2, 4), None));
    v.push(check_scenario("a + 1 > 1", Ty::Int, E::gt(E::add(a(), E::int(1)), E::int(1)), n(|x| x + 1.0 > 1.0), ints(), false, std_passes(2, 4), None));
    // BIGINT column, bounds and values of boundary magnitude: the comparison must be exact where i64 and f64
    // part ways (|x| >= 2^53) and at the ends of the i64 range.  Per bound b: CHECK (a <op> b) for the four
    // ordering operators, values NULL, b-1, b, b+1 and the far end of the range on either side.
    {
        const P53: i64 = 1 << 53;
        let far = i64::MAX - 1;
        // (bound, quick tier?)  bounds that an f64 represents exactly come first
        let bounds: Vec<(i64, bool)> = vec![(P53, true), (-P53, true), (P53 + 1, false), (-(P53 + 1), false), (i64::MAX - 1, false), (-(i64::MAX - 1), false)];
        for (b, quick) in bounds {
            let vals: Vec<V> = {
                let mut xs = vec![b - 1, b, b + 1, far, -far];
                xs.sort();
                xs.dedup();
                std::iter::once(V::Null).chain(xs.into_iter().map(i)).collect()
            };
            let ni = |f: Box<dyn Fn(i64) -> bool + Sync + Send>| -> CheckFn {
                Box::new(move |r: &[V]| match &r[0] {
                    V::Int(x) => Some(f(*x)),
                    _ => None,
                })
            };
            let forms: Vec<(String, E::Expr, CheckFn)> = vec![
                (format!("a < {b}"), E::lt(a(), E::int(b)), ni(Box::new(move |x| x < b))),
                (format!("a <= {b}"), E::le(a(), E::int(b)), ni(Box::new(move |x| x <= b))),
                (format!("a > {b}"), E::gt(a(), E::int(b)), ni(Box::new(move |x| x > b))),
                (format!("a >= {b}"), E::ge(a(), E::int(b)), ni(Box::new(move |x| x >= b))),
            ];
            for (form, expr, f) in forms {
                let form: &'static str = Box::leak(form.into_boxed_str());
                v.push(check_scenario(form, Ty::BigInt, expr, f, vals.clone(), false, std_passes(if quick { 2 } else { 0 }, 3), None));
            }
        }
    }
    // table-level spelling of the simplest form
    v.push(check_scenario("a > 0", Ty::Int, E::gt(a(), E::int(0)), n(|x| x > 0.0), ints(), true, std_passes(2, 4), None));
    // REAL column (floats are written only here)
    v.push(check_scenario("a > 0", Ty::Real, E::gt(a(), E::int(0)), n(|x| x > 0.0), vec![V::Null, V::Float(-1.0), V::Float(0.0), V::Float(1.5), V::Float(10.0)], false, std_passes(2, 4), None));
    // TEXT column
    v.push(check_scenario("a <> 'x'", Ty::Text, E::ne(a(), E::text("x")), Box::new(|r: &[V]| txt(&r[0]).map(|s| s != "x")), vec![V::Null, t("x"), t("y")], false, std_passes(3, 5), None));
    // ---- CHECK over two columns: column-level on `a` and table-level ---------------
    for table_level in [false, true] {
        let vals = vec![V::Null, i(0), i(1)];
        let f: CheckFn = Box::new(|r: &[V]| match (num(&r[0]), num(&r[1])) {
            (Some(x), Some(y)) => Some(x > y),
            _ => None,
        });
        let mut ops = vec![];
        for x in &vals {
            for y in &vals {
                if (*x == i(1) && *y == i(1)) || (x.is_null() && *y == i(0)) || (*x == i(0) && y.is_null()) {
                    continue; // same classes as (0,0), (NULL,1), (1,NULL)
                }
                let cls = match f(&[x.clone(), y.clone()]) {
                    Some(true) => "sat",
                    Some(false) => "viol",
                    None => "null",
                };
                ops.push(op(&format!("ins_{}_{}", vshow(x), vshow(y)), &format!("ins({cls})"), "insert", ins("t", vec![x.clone(), y.clone()])));
            }
        }
        for x in &vals {
            ops.push(op(&format!("upda_{}", vshow(x)), &format!("upd-a(>{})", vshow(x)), "update-nonkey", upd("t", "a", x.clone(), None)));
        }
        for y in &vals {
            ops.push(op(&format!("updb_{}", vshow(y)), &format!("upd-b(>{})", vshow(y)), "update-nonkey", upd("t", "b", y.clone(), None)));
        }
        ops.push(op("delall", "del(all)", "delete", del("t", None)));
        ops.extend(txn_ops(false));
        let expr = E::gt(E::col("a"), E::col("b"));
        let (name, ddl, def) = if table_level {
            ("check-table[a>b]", "CREATE TABLE t (a INT, b INT, CHECK (a > b))", TableDef::new("t").col(ColumnDef::new("a", Ty::Int)).col(ColumnDef::new("b", Ty::Int)).check(expr))
        } else {
            ("check-col[a>b]", "CREATE TABLE t (a INT CHECK (a > b), b INT)", TableDef::new("t").col(ColumnDef::new("a", Ty::Int).check(expr)).col(ColumnDef::new("b", Ty::Int)))
        };
        v.push(Scenario {
            name: name.into(),
            ddl: vec![ddl.into()],
            setup: vec![],
            defs: vec![def],
            decls: vec![Decl::Check { table: "t", form: "a > b", f }],
            tables: vec!["t"],
            ops,
            passes: std_passes(2, 4),
            domain_rows: vec![("t", cross(&[vals.clone(), vals.clone()]))],
        });
    }
    // ---- FOREIGN KEY -----------------------------------------------------------
    let fk_off = plant(plant_opt, "fk-off");
    v.push(fk_scenario("fk-restrict", " ON DELETE RESTRICT", Some(OnDelete::Restrict), { let mut p = deep_passes(3, 4, &["insc2", "updcx1", "truncp"]); p.push(core_pass(&["insp1", "insc1", "delc1", "delp1", "begin", "rollback"], 4, 6)); p }, fk_off));
    v.push(fk_scenario("fk-cascade", " ON DELETE CASCADE", Some(OnDelete::Cascade), { let mut p = deep_passes(3, 4, &["insc2", "updcx1", "truncp"]); p.push(core_pass(&["insp1", "insc1", "delc1", "delp1", "begin", "rollback"], 4, 6)); p }, fk_off));
    v.push(fk_scenario("fk-noaction", "", None, std_passes(3, 4), fk_off));
    v.push(fk_multi_scenario("fk-multi-restrict", " ON DELETE RESTRICT", Some(OnDelete::Restrict), std_passes(3, 4)));
    v.push(fk_multi_scenario("fk-multi-noaction", "", None, std_passes(3, 4)));
    v.push(fk_multi_scenario("fk-multi-cascade", " ON DELETE CASCADE", Some(OnDelete::Cascade), std_passes(3, 4)));
    v.push(fk_scenario("fk-table-level", " ON DELETE RESTRICT", Some(OnDelete::Restrict), std_passes(2, 3), fk_off));
    v
}

/// The harness-side CHECK predicates must agree with the model's expression on the whole
/// value domain (otherwise the two oracles would contradict each other).
fn self_test(scs: &[Scenario]) {
    for sc in scs {
        for (tname, rows) in &sc.domain_rows {
            let def = sc.defs.iter().find(|d| d.name == *tname).expect("table of domain");
            let schema = def.schema();
            let checks = def.all_checks();
            let mine: Vec<&CheckFn> = sc
                .decls
                .iter()
                .filter_map(|d| match d {
                    Decl::Check { table, f, .. } if table == tname => Some(f),
                    _ => None,
                })
                .collect();
            if checks.len() != mine.len() {
                vcore::machinery(&format!("C09 self test: {} declares {} checks in the model and {} in the harness", sc.name, checks.len(), mine.len()));
            }
            for r in rows {
                for (e, f) in checks.iter().zip(&mine) {
                    let m = e.eval_truth(r, &schema).unwrap_or_else(|x| vcore::machinery(&format!("C09 self test: model cannot evaluate {} on {:?}: {x:?}", e.to_sql(), r)));
                    if m != f(r) {
                        vcore::machinery(&format!("C09 self test: {} row {:?}: model {:?} harness {:?}", sc.name, r, m, f(r)));
                    }
                }
            }
        }
    }
}

// ---------------------------------------------------------------------------
// execution of one history
// ---------------------------------------------------------------------------

#[derive(Clone, Copy, PartialEq, Eq, Debug)]
enum Verdict {
    FalseAccept,
    FalseReject,
    StateViolates,
}
impl Verdict {
    fn name(self) -> &'static str {
        match self {
            Verdict::FalseAccept => "false-accept",
            Verdict::FalseReject => "false-reject",
            Verdict::StateViolates => "state-violates-constraint",
        }
    }
}

#[derive(Clone, Debug)]
enum Ev {
    /// C09 violation at this step
    Verdict(Verdict, String, String),
    /// model and subject disagree about something C09 does not speak about: history is cut, no violation
    Prune(&'static str, String),
}

struct Exec {
    /// index of the first step whose result is judged (earlier ones were judged by the parent node)
    ev: Option<(usize, Ev)>,
    model: State,
}

fn err_class(e: &str) -> &'static str {
    if e.contains("PRIMARY KEY") {
        "err.pk"
    } else if e.contains("UNIQUE") {
        "err.unique"
    } else if e.contains("NOT NULL") {
        "err.notnull"
    } else if e.contains("CHECK") {
        "err.check"
    } else if e.contains("FOREIGN KEY") {
        "err.fk"
    } else {
        "err.other"
    }
}

struct Runner<'a> {
    ctx: &'a Ctx,
    executed: u64,
}

impl<'a> Runner<'a> {
    fn observe(&self, t: &TestDb, sc: &Scenario) -> Result<BTreeMap<String, Vec<Row>>, String> {
        let mut m = BTreeMap::new();
        for tn in &sc.tables {
            match t.exec(&format!("SELECT * FROM {tn}")) {
                Res::Rows(r) => {
                    m.insert(tn.to_string(), bag(&r));
                }
                o => return Err(format!("SELECT * FROM {tn}: {}", o.show())),
            }
        }
        Ok(m)
    }

    /// Run `hist` on a fresh database and the model in lock-step; judge steps `>= judge_from`.
    fn run(&mut self, sc: &Scenario, hist: &[usize], judge_from: usize, rep: Option<&mut Reporter>) -> Exec {
        self.executed += 1;
        let mut rep = rep;
        let mut model = State::new();
        for d in &sc.defs {
            Stmt::CreateTable(CreateTable::new(d.clone())).apply(&mut model).unwrap_or_else(|e| vcore::machinery(&format!("C09: model rejects the schema of {}: {e:?}", sc.name)));
        }
        let t = TestDb::create(&self.ctx.scratch, "db").unwrap_or_else(|e| vcore::machinery(&format!("C09: cannot create database: {e}")));
        for d in &sc.ddl {
            let r = t.exec(d);
            if !r.ok() {
                vcore::machinery(&format!("C09: schema statement refused: {d}: {}", r.show()));
            }
        }
        for st in &sc.setup {
            st.apply(&mut model).unwrap_or_else(|e| vcore::machinery(&format!("C09: model rejects setup statement {} of {}: {e:?}", st.to_sql(), sc.name)));
            let r = t.exec(&st.to_sql());
            if !r.ok() {
                vcore::machinery(&format!("C09: setup statement refused: {}: {}", st.to_sql(), r.show()));
            }
        }
        for (k, &oi) in hist.iter().enumerate() {
            let o = &sc.ops[oi];
            let before = model.clone();
            let exp = o.stmt.apply(&mut model);
            if let Err(e) = &exp {
                if o.kind != Kind::Write || !e.is_constraint() {
                    vcore::machinery(&format!("C09: model reports a non-constraint error for generated op {} of {}: {e:?}", o.name, sc.name));
                }
            }
            let real = t.exec(&o.sql);
            let judged = k >= judge_from;
            if judged {
                if let Some(rep) = rep.as_deref_mut() {
                    rep.count(&format!("op.{}", o.family), 1);
                    match &real {
                        Res::Err(e) => rep.count(err_class(e), 1),
                        Res::Panic(_) => rep.count("err.panic", 1),
                        _ => {}
                    }
                    if let Err(e) = &exp {
                        rep.count(&format!("model.reject.{}", e.class()), 1);
                    }
                }
            }
            if !judged {
                // judged by an ancestor node; a difference here would be nondeterminism of the subject
                if exp.is_ok() != real.ok() {
                    return Exec { ev: Some((k, Ev::Prune("nondeterministic-prefix", format!("step {k} {}: model ok={} subject {}", o.sql, exp.is_ok(), real.show())))), model: before };
                }
                continue;
            }
            if o.kind != Kind::Write {
                if !real.ok() {
                    return Exec { ev: Some((k, Ev::Prune("txn-op-refused", format!("{} => {}", o.sql, real.show())))), model: before };
                }
            }
            let obs = match self.observe(&t, sc) {
                Ok(m) => m,
                Err(e) => return Exec { ev: Some((k, Ev::Prune("observation-failed", e))), model: before },
            };
            let broken = first_violation(&sc.decls, &obs);
            let show_obs = || sc.tables.iter().map(|tn| format!("{tn}={}", show_rows(&obs[*tn]))).collect::<Vec<_>>().join(" ");
            let steps = || hist[..=k].iter().map(|&i| sc.ops[i].sql.clone()).collect::<Vec<_>>().join("; ");
            if o.kind == Kind::Write {
                match (&exp, real.ok()) {
                    (Ok(_), false) => {
                        let ev = Ev::Verdict(
                            Verdict::FalseReject,
                            format!("[{}] the last statement succeeds: the resulting state {} satisfies every declared constraint", steps(), model.observe().iter().map(|(n, r)| format!("{n}={}", show_rows(r))).collect::<Vec<_>>().join(" ")),
                            real.show(),
                        );
                        return Exec { ev: Some((k, ev)), model: before };
                    }
                    (Err(e), true) => {
                        return match &broken {
                            Some(b) => Exec {
                                ev: Some((k, Ev::Verdict(Verdict::FalseAccept, format!("[{}] the last statement is refused ({})", steps(), e.class()), format!("{}; tables now: {}; {b}", real.show(), show_obs())))),
                                model: before,
                            },
                            // the subject did something else than the model's statement semantics and its
                            // result satisfies the constraints: not a constraint defect
                            None => Exec { ev: Some((k, Ev::Prune("accepted-with-valid-state", format!("{} => {} tables {}", o.sql, real.show(), show_obs())))), model: before },
                        };
                    }
                    _ => {}
                }
            }
            if let Some(b) = broken {
                let ev = Ev::Verdict(Verdict::StateViolates, format!("[{}] every declared constraint holds on the stored tables", steps()), format!("last statement => {}; tables now: {}; {b}", real.show(), show_obs()));
                return Exec { ev: Some((k, ev)), model: before };
            }
            let want = model.observe();
            if want != obs {
                return Exec { ev: Some((k, Ev::Prune("state-differs-from-model", format!("{} => {} tables {} model {:?}", o.sql, real.show(), show_obs(), want)))), model: before };
            }
            if let Some(rep) = rep.as_deref_mut() {
                rep.count(if exp.is_ok() { "agree.accept" } else { "agree.reject" }, 1);
            }
        }
        Exec { ev: None, model }
    }

    /// is the history one the generator produces (BEGIN only outside, ROLLBACK/COMMIT only inside a transaction)?
    fn well_formed(sc: &Scenario, hist: &[usize]) -> bool {
        let mut open = false;
        for &i in hist {
            match sc.ops[i].kind {
                Kind::Begin => {
                    if open {
                        return false;
                    }
                    open = true;
                }
                Kind::Rollback | Kind::Commit => {
                    if !open {
                        return false;
                    }
                    open = false;
                }
                Kind::Write => {}
            }
        }
        true
    }

    /// does `hist` fail with `verdict` exactly at its last step (and nowhere earlier)?
    fn reproduces(&mut self, sc: &Scenario, hist: &[usize], verdict: Verdict) -> Option<(String, String)> {
        if hist.is_empty() || !Self::well_formed(sc, hist) {
            return None;
        }
        match self.run(sc, hist, 0, None).ev {
            Some((k, Ev::Verdict(v, e, o))) if k == hist.len() - 1 && v == verdict => Some((e, o)),
            _ => None,
        }
    }

    /// Minimal history (single removals, BEGIN..ROLLBACK/COMMIT pair removals, replacement of an op by
    /// a narrower one) that keeps the verdict at its last step.  Deterministic; a fixpoint of itself.
    fn shrink(&mut self, sc: &Scenario, hist: &[usize], verdict: Verdict) -> Vec<usize> {
        let mut cur = hist.to_vec();
        'outer: loop {
            let n = cur.len();
            let mut cands: Vec<Vec<usize>> = vec![];
            for i in 0..n.saturating_sub(1) {
                let mut c = cur.clone();
                c.remove(i);
                cands.push(c);
            }
            for i in 0..n.saturating_sub(1) {
                if sc.ops[cur[i]].kind == Kind::Begin {
                    if let Some(j) = (i + 1..n - 1).find(|&j| matches!(sc.ops[cur[j]].kind, Kind::Rollback | Kind::Commit)) {
                        let mut c = cur.clone();
                        c.remove(j);
                        c.remove(i);
                        cands.push(c);
                    }
                }
            }
            // then: an op replaced by a narrower one of the same kind (DELETE all -> DELETE one key, ..)
            for i in 0..n {
                for r in sc.simpler(cur[i]) {
                    let mut c = cur.clone();
                    c[i] = r;
                    cands.push(c);
                }
            }
            for c in cands {
                if self.reproduces(sc, &c, verdict).is_some() {
                    cur = c;
                    continue 'outer;
                }
            }
            return cur;
        }
    }
}

/// op pattern of a history: labels with key values renamed A, B, .. in order of first appearance
fn pattern(sc: &Scenario, hist: &[usize]) -> String {
    let mut names: Vec<String> = vec![];
    let mut out = vec![];
    for &i in hist {
        let l = &sc.ops[i].label;
        let mut s = String::new();
        let b: Vec<char> = l.chars().collect();
        let mut k = 0;
        while k < b.len() {
            if b[k] == '#' {
                let mut j = k + 1;
                while j < b.len() && (b[j].is_alphanumeric() || b[j] == '-' || b[j] == '.') {
                    j += 1;
                }
                let key: String = b[k + 1..j].iter().collect();
                let idx = match names.iter().position(|n| *n == key) {
                    Some(p) => p,
                    None => {
                        names.push(key);
                        names.len() - 1
                    }
                };
                s.push((b'A' + idx as u8) as char);
                k = j;
            } else {
                s.push(b[k]);
                k += 1;
            }
        }
        out.push(s);
    }
    format!("[{}]", out.join(";"))
}

/// `p` results from `h` by removing ops (not the last) and replacing ops by narrower ones
fn is_subsequence_ending(sc: &Scenario, p: &[usize], h: &[usize]) -> bool {
    if p.is_empty() || h.is_empty() || !sc.reduces_to(h[h.len() - 1], p[p.len() - 1]) {
        return false;
    }
    let mut i = 0;
    for &x in &h[..h.len() - 1] {
        if i < p.len() - 1 && sc.reduces_to(x, p[i]) {
            i += 1;
        }
    }
    i == p.len() - 1
}

// ---------------------------------------------------------------------------
// exploration
// ---------------------------------------------------------------------------

struct Walker<'a, 'b> {
    run: Runner<'a>,
    rep: &'b mut Reporter,
    /// depth up to which nodes are executed by every worker (subtrees below are owned by one worker)
    split_depth: usize,
    shallow_seq: u64,
    unit_seq: u64,
    /// minimal failing patterns already found: (scenario index, verdict) -> histories
    memo: BTreeMap<(usize, u8), Vec<Vec<usize>>>,
    stop: bool,
}

impl<'a, 'b> Walker<'a, 'b> {
    fn report(&mut self, si: usize, sc: &Scenario, hist: &[usize], verdict: Verdict, expected: &str, observed: &str) {
        let key = (si, verdict as u8);
        let known = self.memo.get(&key).and_then(|v| v.iter().find(|p| is_subsequence_ending(sc, p, hist)).cloned());
        let (min, exp, obs) = match known {
            Some(p) => (p, expected.to_string(), observed.to_string()),
            None => {
                let m = self.run.shrink(sc, hist, verdict);
                self.rep.count("shrink.runs", 1);
                let (e, o) = if m.len() == hist.len() { (expected.to_string(), observed.to_string()) } else { self.run.reproduces(sc, &m, verdict).unwrap_or((expected.to_string(), observed.to_string())) };
                self.memo.entry(key).or_default().push(m.clone());
                (m, e, o)
            }
        };
        let sig = format!("C09/{}/{}/{}", sc.name, pattern(sc, &min), verdict.name());
        self.rep.count(&format!("verdict.{}", verdict.name()), 1);
        let names = |h: &[usize]| h.iter().map(|&i| sc.ops[i].name.clone()).collect::<Vec<_>>();
        let sql = |h: &[usize]| h.iter().map(|&i| sc.ops[i].sql.clone()).collect::<Vec<_>>();
        self.rep.violation("C09", verdict.name(), &sig, || json!({"scenario": sc.name, "ops": names(&min), "ddl": sc.ddl, "setup": sc.setup.iter().map(|x| x.to_sql()).collect::<Vec<_>>(), "sql": sql(&min), "found_in": names(hist)}), &exp, &obs);
    }

    fn dfs(&mut self, si: usize, sc: &Scenario, allowed: &[usize], prefix: &mut Vec<usize>, in_txn: bool, maxd: usize, owned: bool) {
        for &oi in allowed {
            if self.stop {
                return;
            }
            let o = &sc.ops[oi];
            match o.kind {
                Kind::Begin if in_txn => continue,
                Kind::Rollback | Kind::Commit if !in_txn => continue,
                _ => {}
            }
            prefix.push(oi);
            let depth = prefix.len();
            // nodes above the split depth are executed by every worker (their verdict decides whether
            // to descend) and reported by one; a node AT the split depth roots a unit of work that
            // exactly one worker executes, reports and descends into
            let (execute, reporting, child_owned) = if depth < self.split_depth {
                let m = self.run.ctx.mine(self.shallow_seq);
                self.shallow_seq += 1;
                (true, m, owned)
            } else if depth == self.split_depth {
                let m = self.run.ctx.mine(self.unit_seq);
                self.unit_seq += 1;
                (m, m, m)
            } else {
                (true, true, owned)
            };
            if !execute {
                prefix.pop();
                continue;
            }
            if self.run.ctx.expired() {
                self.rep.capped("deadline reached during history enumeration");
                self.stop = true;
                prefix.pop();
                return;
            }
            let ex = self.run.run(sc, prefix, depth - 1, if reporting { Some(&mut *self.rep) } else { None });
            if reporting {
                let h = vcore::util::hash_of(&(sc.name.as_str(), prefix.iter().map(|&i| sc.ops[i].name.as_str()).collect::<Vec<_>>()));
                self.rep.case(h, o.kind == Kind::Write);
                self.rep.add_states(1);
                self.rep.add_transitions(1);
                self.rep.add_traces_validated(1);
                self.rep.count(&format!("sc.{}.nodes", sc.name), 1);
                if depth == maxd && ex.ev.is_none() {
                    self.rep.count(&format!("sc.{}.full-depth-histories", sc.name), 1);
                }
                self.rep.sample(|| json!({"scenario": sc.name, "sql": prefix.iter().map(|&i| sc.ops[i].sql.clone()).collect::<Vec<_>>()}));
            }
            match &ex.ev {
                None => {
                    if reporting {
                        self.rep.outcome(&format!("{}:{}:agree", sc.name, o.family));
                    }
                    if depth < maxd && (depth < self.split_depth || child_owned) {
                        let txn2 = match o.kind {
                            Kind::Begin => true,
                            Kind::Rollback | Kind::Commit => false,
                            Kind::Write => in_txn,
                        };
                        debug_assert_eq!(txn2, ex.model.in_transaction());
                        self.dfs(si, sc, allowed, prefix, txn2, maxd, child_owned);
                    }
                }
                Some((_, Ev::Verdict(v, e, ob))) => {
                    if reporting {
                        self.rep.outcome(&format!("{}:{}:{}", sc.name, o.family, v.name()));
                        self.rep.pruned(1);
                        self.rep.count(&format!("sc.{}.cut-at-violation", sc.name), 1);
                        let hist = prefix.clone();
                        self.report(si, sc, &hist, *v, e, ob);
                    }
                }
                Some((_, Ev::Prune(why, detail))) => {
                    if reporting {
                        self.rep.outcome(&format!("{}:{}:cut:{why}", sc.name, o.family));
                        self.rep.pruned(1);
                        self.rep.count(&format!("cut.{why}"), 1);
                        self.rep.count(&format!("sc.{}.cut-other", sc.name), 1);
                        if self.run.ctx.opt("verbose").is_some() {
                            self.rep.note(&format!("cut {why} in {} {}: {}", sc.name, pattern(sc, prefix), vcore::util::clip(detail, 400)));
                        }
                        if *why == "nondeterministic-prefix" || *why == "observation-failed" {
                            self.rep.note(&format!("{why} in {}: {}", sc.name, vcore::util::clip(detail, 300)));
                        }
                    }
                }
            }
            prefix.pop();
        }
    }
}

struct C09;

impl Check for C09 {
    fn specs(&self) -> Vec<Spec> {
        let mut s = Spec::new(
            "C09",
            "model_checking",
            "per schema (PRIMARY KEY int/text; UNIQUE int/text/composite with NULLs; NOT NULL with and without DEFAULT; column- and table-level CHECK in 17 forms over INT/REAL/TEXT and a <,<=,>,>= b on BIGINT for b = +-2^53 (thorough also +-(2^53+1), +-(2^63-2)) with values NULL, b-1, b, b+1, +-(2^63-2); FOREIGN KEY with RESTRICT, CASCADE and no action) every history of single-row INSERT, UPDATE of key and non-key columns, DELETE (one key / all; multi-row DELETEs of 2-3 preloaded parents of which the first / a non-first / several are referenced), TRUNCATE of the parent, BEGIN/ROLLBACK/COMMIT over 2 key values + NULL (CHECK: values NULL,-1,0,1,10 / 'x','y' / -1.0,0.0,1.5,10.0) up to depth 3 (quick) / 4-5 (thorough) is executed on a fresh real Database in lock-step with the relational model; a case is one history (no merging: hidden index/tombstone state), non-trivial when its last step is a write; Ok/Err of every write is compared with the model's verdict on the resulting state and the stored tables are re-checked against every declaration by an independent evaluator; a history is cut at its first divergence (all histories that do not run through a divergence are still explored to full depth)",
        );
        s.assumptions = &[
            "SQL-standard end-of-statement constraint semantics as implemented by refmodel::sql::rel (cross-checked against SQLite); no ON UPDATE actions; a FOREIGN KEY without ON DELETE refuses the delete of a referenced parent",
            "only single-row INSERTs and single-assignment UPDATEs are generated (statement atomicity of multi-row writes belongs to C05/C07)",
            "an accepted write that the model would refuse but whose stored result satisfies every constraint is counted as a statement-semantics difference, not as a violation",
        ];
        s.cap_quick_s = 100;
        s.cap_thorough_s = 1500;
        vec![s]
    }

    fn run(&self, ctx: &Ctx, rep: &mut Reporter) {
        let scs = scenarios(ctx.opt("plant"));
        self_test(&scs);
        let only = ctx.opt("scenario").map(|s| s.to_string());
        let mut w = Walker { run: Runner { ctx, executed: 0 }, rep: &mut *rep, split_depth: ctx.tier.pick(1, 2), shallow_seq: 0, unit_seq: 0, memo: BTreeMap::new(), stop: false };
        for name in ["op.insert", "op.update-key", "op.update-nonkey", "op.delete", "op.delete-multi", "op.truncate", "op.begin", "op.rollback", "op.commit", "err.pk", "err.unique", "err.notnull", "err.check", "err.fk", "agree.accept", "agree.reject"] {
            w.rep.expect_nonzero(name);
        }
        let mut bounds = serde_json::Map::new();
        // smallest passes first: if the wall cap strikes (loaded machine), as many scenario/pass pairs as
        // possible are complete; `completed-slices.<scenario>/<pass>` = number of workers that finished
        // their slice of it (= workers when complete)
        let mut plan: Vec<(u64, usize, usize, Vec<usize>, usize)> = vec![];
        for (si, sc) in scs.iter().enumerate() {
            if only.as_ref().map_or(false, |o| *o != sc.name) {
                continue;
            }
            for (pi, p) in sc.passes.iter().enumerate() {
                let allowed: Vec<usize> = (0..sc.ops.len()).filter(|&i| !p.without.contains(&sc.ops[i].name.as_str()) && (p.only.is_empty() || p.only.contains(&sc.ops[i].name.as_str()))).collect();
                let maxd = ctx.tier.pick(p.depth_quick, p.depth_thorough);
                // development aid: `--opt maxdepth=N` clamps every pass (never used by the registered runs)
                let maxd = ctx.opt("maxdepth").and_then(|s| s.parse::<usize>().ok()).map_or(maxd, |m| maxd.min(m));
                if maxd == 0 || ctx.opt("pass").map_or(false, |x| x != p.name) {
                    continue;
                }
                plan.push(((allowed.len() as u64).pow(maxd as u32), si, pi, allowed, maxd));
            }
        }
        plan.sort_by_key(|x| (x.0, x.1, x.2));
        for (_, si, pi, allowed, maxd) in plan {
            let sc = &scs[si];
            let p = &sc.passes[pi];
            bounds.insert(format!("{}/{}", sc.name, p.name), json!({"alphabet": allowed.len(), "depth": maxd}));
            let mut prefix = vec![];
            w.dfs(si, sc, &allowed, &mut prefix, false, maxd, true);
            if w.stop {
                break;
            }
            w.rep.count(&format!("completed-slices.{}/{}", sc.name, p.name), 1);
        }
        let executed = w.run.executed;
        rep.bound("scenarios", Value::Object(bounds));
        rep.count("database-executions", executed);
    }

    fn replay(&self, ctx: &Ctx, case: &Value, rep: &mut Reporter) {
        let scs = scenarios(ctx.opt("plant"));
        let name = case["scenario"].as_str().unwrap_or("");
        let (si, sc) = match scs.iter().enumerate().find(|(_, s)| s.name == name) {
            Some(x) => x,
            None => vcore::machinery(&format!("C09 replay: unknown scenario {name}")),
        };
        let mut hist = vec![];
        for n in case["ops"].as_array().cloned().unwrap_or_default() {
            let n = n.as_str().unwrap_or("").to_string();
            match sc.ops.iter().position(|o| o.name == n) {
                Some(i) => hist.push(i),
                None => vcore::machinery(&format!("C09 replay: unknown op {n} in scenario {name}")),
            }
        }
        let mut w = Walker { run: Runner { ctx, executed: 0 }, rep, split_depth: 0, shallow_seq: 0, unit_seq: 0, memo: BTreeMap::new(), stop: false };
        let ex = w.run.run(sc, &hist, 0, None);
        w.rep.case(vcore::util::hash_of(&(name, &hist)), true);
        w.rep.add_states(1);
        w.rep.add_transitions(hist.len() as u64);
        w.rep.add_traces_validated(1);
        if let Some((k, Ev::Verdict(v, e, o))) = ex.ev {
            let h = hist[..=k].to_vec();
            w.report(si, sc, &h, v, &e, &o);
        }
    }
}

fn main() {
    vcore::main(&C09)
}
