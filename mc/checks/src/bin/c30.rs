//! C30 — vectorized leaf search equals binary search (exhaustive input enumeration).
//!
//! Leaf pages are built with the real `LeafNodeMut::init` / `insert_at_end`.
//! Oracle: plain binary search over the sorted key list the harness itself
//! generated (never TurDB's accessors).
use turdb::btree::{extract_prefix, LeafNode, LeafNodeMut, SearchResult};
use turdb::btree::simd_scan::{simd_prefix_search_avx2, simd_prefix_search_scalar};
use vcore::{json, Check, Ctx, Reporter, Spec, Value};

const PAGE_SIZE: usize = 16384;

struct C30;

/// keys of a page: runs[i] = number of consecutive keys sharing one 4-byte prefix.
/// variant 0: prefix ++ big-endian u16 suffix (2j+1)   (keys longer than 4 bytes)
/// variant 1: zero-padding family [p],[p,0],[p,0,0],… (keys shorter than / equal to / longer than 4 bytes with the same padded prefix)
/// variant 2: high-bit prefixes (0x80.. / 0xFF..) to exercise the unsigned comparison
fn build_keys(runs: &[usize], variant: u8) -> Vec<Vec<u8>> {
    let mut keys = Vec::new();
    for (r, &len) in runs.iter().enumerate() {
        let r16 = (r as u16) * 2 + 1;
        match variant {
            1 if len > 24 => {
                let head = vec![0x10 + (r16 >> 8) as u8, (r16 & 0xFF) as u8, 0, 0];
                for j in 0..len {
                    let mut k = head.clone();
                    k.extend_from_slice(&((j as u16) * 2 + 1).to_be_bytes());
                    keys.push(k);
                }
            }
            1 => {
                // first byte distinguishes runs (two bytes for many runs)
                let head = vec![0x10 + (r16 >> 8) as u8, (r16 & 0xFF) as u8];
                // keys: head, head+[0], head+[0,0], ... all share prefix head|00 00 when len(head)=2
                for j in 0..len {
                    let mut k = head.clone();
                    k.extend(std::iter::repeat(0u8).take(j));
                    keys.push(k);
                }
            }
            _ => {
                let hi = if variant == 2 { if r % 2 == 0 { 0x80 } else { 0xFF } } else { 0x16 };
                let p = if variant == 2 { [hi, (r16 >> 8) as u8, (r16 & 0xFF) as u8, 0x00] } else { [hi, 0, (r16 >> 8) as u8, (r16 & 0xFF) as u8] };
                for j in 0..len {
                    let s = (j as u16) * 2 + 1;
                    let mut k = p.to_vec();
                    k.extend_from_slice(&s.to_be_bytes());
                    keys.push(k);
                }
            }
        }
    }
    if variant == 2 {
        keys.sort();
    }
    debug_assert!(keys.windows(2).all(|w| w[0] < w[1]), "generated keys not strictly sorted: {runs:?} v{variant}");
    keys
}

fn build_page(keys: &[Vec<u8>]) -> Option<Vec<u8>> {
    let mut page = vec![0u8; PAGE_SIZE];
    {
        let mut leaf = LeafNodeMut::init(&mut page).ok()?;
        for k in keys {
            leaf.insert_at_end(k, b"").ok()?;
        }
    }
    Some(page)
}

fn probes(keys: &[Vec<u8>]) -> Vec<Vec<u8>> {
    let mut p: Vec<Vec<u8>> = Vec::with_capacity(keys.len() * 6 + 4);
    p.push(vec![]);
    p.push(vec![0x00]);
    p.push(vec![0xFF; 5]);
    for k in keys {
        p.push(k.clone());
        let mut a = k.clone();
        a.push(0);
        p.push(a); // immediate successor
        let mut b = k.clone();
        if let Some(l) = b.last_mut() {
            if *l > 0 {
                *l -= 1;
                p.push(b.clone()); // just below (same length)
            }
        }
        let mut c = k.clone();
        if let Some(l) = c.last_mut() {
            if *l < 0xFF {
                *l += 1;
                p.push(c);
            }
        }
        if k.len() > 1 {
            p.push(k[..k.len() - 1].to_vec()); // truncated
        }
        if k.len() > 4 {
            p.push(k[..4].to_vec()); // prefix only
            let mut d = k[..4].to_vec();
            d.push(0xFF);
            d.push(0xFF);
            d.push(0xFF);
            p.push(d); // same prefix, above the whole run
        }
    }
    p.sort();
    p.dedup();
    p
}

fn run_class(keys: &[Vec<u8>], probe: &[u8]) -> &'static str {
    let pp = extract_prefix(probe);
    let n = keys.iter().filter(|k| extract_prefix(k) == pp).count();
    if n >= 8 {
        "eqprefix-run>=8"
    } else if n >= 1 {
        "eqprefix-run<8"
    } else {
        "no-eqprefix"
    }
}

fn check_page(runs: &[usize], variant: u8, rep: &mut Reporter) {
    let keys = build_keys(runs, variant);
    let Some(page) = build_page(&keys) else {
        rep.count("pages_skipped_too_large", 1);
        return;
    };
    let n = keys.len();
    let case = || json!({"runs": runs, "variant": variant});
    let leaf = match LeafNode::from_page(&page) {
        Ok(l) => l,
        Err(e) => {
            rep.violation("C30", "page", "C30/page/from_page-rejects-wellformed-leaf", case, "Ok", &e.to_string());
            return;
        }
    };
    let avx2 = std::is_x86_feature_detected!("avx2");
    let pr = probes(&keys);
    let mut nprobes = 0u64;
    for probe in &pr {
        nprobes += 1;
        let want = keys.binary_search_by(|k| k.as_slice().cmp(probe.as_slice()));
        let (want_s, pos) = match want {
            Ok(i) => (format!("Found({i})"), i),
            Err(i) => (format!("NotFound({i})"), i),
        };
        // 1. the dispatching entry point
        let got = vcore::catch(|| leaf.find_key(probe));
        let cls = run_class(&keys, probe);
        match got {
            Err(p) => rep.violation("C30", "find_key", &format!("C30/find_key/panic/{cls}"), || json!({"runs": runs, "variant": variant, "probe": vcore::util::hex(probe)}), &want_s, &p),
            Ok(g) => {
                let ok = match (want, g) {
                    (Ok(i), SearchResult::Found(j)) => i == j,
                    (Err(i), SearchResult::NotFound(j)) => i == j,
                    _ => false,
                };
                if !ok {
                    let kind = match (want, g) {
                        (Ok(_), SearchResult::NotFound(_)) => "found>notfound",
                        (Ok(_), SearchResult::Found(_)) => "found>found-elsewhere",
                        (Err(_), SearchResult::Found(_)) => "notfound>found",
                        (Err(_), SearchResult::NotFound(_)) => "notfound>wrong-insertion-point",
                    };
                    rep.violation("C30", "find_key", &format!("C30/find_key/{kind}/{cls}"), || json!({"runs": runs, "variant": variant, "probe": vcore::util::hex(probe)}), &want_s, &format!("{g:?}"));
                }
            }
        }
        // 2. both narrowing functions must return a range containing the true position
        let tp = u32::from_be_bytes(extract_prefix(probe));
        let mut ranges = vec![("scalar", simd_prefix_search_scalar(&page, tp, n))];
        if avx2 {
            ranges.push(("avx2", unsafe { simd_prefix_search_avx2(&page, tp, n) }));
        }
        for (name, (l, r, _)) in ranges {
            let r = r.min(n);
            let ok = match want {
                Ok(i) => l <= i && i < r,
                Err(i) => l <= i && i <= r,
            };
            if !ok {
                rep.violation("C30", "narrowing", &format!("C30/narrow/{name}/range-excludes-position/{cls}"), || json!({"runs": runs, "variant": variant, "probe": vcore::util::hex(probe)}), &format!("range containing {pos}"), &format!("[{l},{r})"));
            }
        }
    }
    let max_run = runs.iter().copied().max().unwrap_or(0);
    if max_run >= 8 {
        rep.count("pages_with_equal_prefix_run_ge_8", 1);
    }
    if variant == 1 {
        rep.count("pages_with_keys_shorter_than_4", 1);
    }
    rep.count("probes", nprobes);

}

trait Dummy {
    fn add_dummy(&mut self);
}
impl Dummy for Reporter {
    fn add_dummy(&mut self) {}
}

/// all compositions of n, in order of the bitmask of cut positions
fn composition(n: usize, mask: u32) -> Vec<usize> {
    let mut runs = Vec::new();
    let mut cur = 1;
    for i in 0..n - 1 {
        if mask & (1 << i) != 0 {
            runs.push(cur);
            cur = 1;
        } else {
            cur += 1;
        }
    }
    runs.push(cur);
    runs
}

fn families(n: usize) -> Vec<Vec<usize>> {
    let mut f = vec![vec![n]];
    for i in 1..n {
        f.push(vec![i, n - i]);
    }
    for l in [1usize, 2, 3, 7, 8, 9, 16] {
        let mut v = vec![l; n / l];
        if n % l != 0 {
            v.push(n % l);
        }
        f.push(v);
    }
    // one long run surrounded by singletons at every offset multiple of 3
    if n > 12 {
        for off in (0..n - 9).step_by(3) {
            let mut v = vec![1; off];
            v.push(9);
            v.extend(std::iter::repeat(1).take(n - off - 9));
            f.push(v);
        }
    }
    f
}

impl Check for C30 {
    fn specs(&self) -> Vec<Spec> {
        let mut s = Spec::new(
            "C30",
            "exploration",
            "a case is one leaf page (key-set shape = composition of n into runs of equal 4-byte prefix x key-family variant) probed with every stored key and every neighbouring gap key; n<=15 (quick) / n<=20 (thorough): every composition (2^(n-1) shapes) x 3 variants; larger n in {nmax+1..64,100,255,400}: run families (one run, two runs split at every i, fixed run lengths 1,2,3,7,8,9,16, a 9-run at every third offset). Distinct = distinct (runs,variant); non-trivial = page has >= 2 keys.",
        );
        s.assumptions = &["oracle is slice::binary_search over the harness's own sorted key list", "AVX2 path is exercised because the sandbox CPU has AVX2 (recorded in counters); the scalar narrowing function is checked directly as the no-AVX2 stand-in"];
        s.cap_quick_s = 100;
        s.cap_thorough_s = 1800;
        vec![s]
    }

    fn run(&self, ctx: &Ctx, rep: &mut Reporter) {
        let nmax = ctx.tier.pick(15usize, 20usize);
        rep.bound("all_compositions_up_to_n", json!(nmax));
        rep.count("avx2_available", std::is_x86_feature_detected!("avx2") as u64);
        rep.expect_nonzero("pages_with_equal_prefix_run_ge_8");
        rep.expect_nonzero("pages_with_keys_shorter_than_4");
        let mut idx = 0u64;
        // n = 0: empty page
        if ctx.worker == 0 {
            check_page(&[], 0, rep);
            rep.case(0, false);
        }
        for n in 1..=nmax {
            for mask in 0..(1u32 << (n - 1)) {
                idx += 1;
                if !ctx.mine(idx) {
                    continue;
                }
                let runs = composition(n, mask);
                for variant in 0..3u8 {
                    check_page(&runs, variant, rep);
                    rep.case(vcore::util::hash_of(&(&runs, variant)), n >= 2);
                }
                if idx % 4096 == 0 && ctx.expired() {
                    rep.capped("deadline in composition sweep");
                    return;
                }
            }
        }
        rep.sample(|| json!({"runs": [1, 9, 2], "variant": 0, "meaning": "12 keys: 1 key, 9 keys sharing a 4-byte prefix, 2 keys"}));
        let mut big: Vec<usize> = (nmax + 1..=64).collect();
        big.extend([100, 255, 400]);
        for n in big {
            for runs in families(n) {
                idx += 1;
                if !ctx.mine(idx) {
                    continue;
                }
                for variant in 0..3u8 {
                    check_page(&runs, variant, rep);
                    rep.case(vcore::util::hash_of(&(&runs, variant)), true);
                }
            }
            if ctx.expired() {
                rep.capped("deadline in family sweep");
                return;
            }
        }
    }

    fn replay(&self, _ctx: &Ctx, case: &Value, rep: &mut Reporter) {
        let runs: Vec<usize> = case["runs"].as_array().map(|a| a.iter().map(|x| x.as_u64().unwrap_or(0) as usize).collect()).unwrap_or_default();
        let variant = case["variant"].as_u64().unwrap_or(0) as u8;
        check_page(&runs, variant, rep);
        rep.case(vcore::util::hash_of(&(&runs, variant)), true);
    }
}

fn main() {
    vcore::main(&C30)
}
