//! C13 — bound parameters behave like the equivalent literals (exhaustive product
//! statement template x parameter value x API path; differential twin oracle).
//!
//! Twin databases: A executes the statement with bound parameters through the API
//! path under test, B executes the same statement with every parameter rendered as
//! a SQL literal by the harness's own renderer (`checks::sqlh::lit`).  Results and
//! the full post-state must agree; the schema (set of files) and the other table
//! must be untouched; bound text/blobs must be stored verbatim (direct oracle, also
//! used where no literal can express the value: NaN, +-inf).
use checks::sqlh::{exec, lit, norm, to_v, Res, TestDb};
use refmodel::val::V;
use std::collections::{BTreeMap, BTreeSet};
use turdb::{Database, OwnedValue as OV};
use vcore::{json, Check, Ctx, Reporter, Spec, Value};

// ---------------------------------------------------------------- values
#[derive(Clone, Copy, Debug, PartialEq, Eq, PartialOrd, Ord)]
enum Kind {
    Int,
    Float,
    Bool,
    Text,
    Blob,
    Null,
}
impl Kind {
    fn ddl(self) -> &'static str {
        match self {
            Kind::Int => "BIGINT",
            Kind::Float => "DOUBLE",
            Kind::Bool => "BOOLEAN",
            Kind::Text | Kind::Null => "TEXT",
            Kind::Blob => "BLOB",
        }
    }
    fn base(self) -> &'static str {
        match self {
            Kind::Int => "7",
            Kind::Float => "7.5",
            Kind::Bool => "TRUE",
            Kind::Text | Kind::Null => "'base'",
            Kind::Blob => "x'0a0b'",
        }
    }
}
#[derive(Clone, Debug)]
struct Pv {
    class: &'static str,
    kind: Kind,
    v: OV,
    /// the value has a literal spelling
    expressible: bool,
    tier: u8,
}
fn ascii_of(n: usize, seed: u64) -> String {
    (0..n).map(|i| (b'a' + (((i as u64).wrapping_mul(2654435761).wrapping_add(seed * 977) >> 7) % 26) as u8) as char).collect()
}
fn values(thorough: bool) -> Vec<Pv> {
    let p = |class: &'static str, kind: Kind, v: OV| Pv { class, kind, v, expressible: true, tier: 0 };
    let t = |class: &'static str, s: &str| Pv { class, kind: Kind::Text, v: OV::Text(s.to_string()), expressible: true, tier: 0 };
    let mut v = vec![
        p("int-typical", Kind::Int, OV::Int(42)),
        p("int-zero", Kind::Int, OV::Int(0)),
        p("int-neg", Kind::Int, OV::Int(-1)),
        p("int-max", Kind::Int, OV::Int(i64::MAX)),
        p("int-min", Kind::Int, OV::Int(i64::MIN)),
        p("int-min+1", Kind::Int, OV::Int(i64::MIN + 1)),
        p("int-2^31", Kind::Int, OV::Int(1 << 31)),
        p("int-2^53+1", Kind::Int, OV::Int((1 << 53) + 1)),
        p("float-typical", Kind::Float, OV::Float(1.5)),
        p("float-neg-zero", Kind::Float, OV::Float(-0.0)),
        p("float-tenth", Kind::Float, OV::Float(0.1)),
        p("float-integral", Kind::Float, OV::Float(3.0)),
        p("float-1e300", Kind::Float, OV::Float(1e300)),
        p("float-subnormal", Kind::Float, OV::Float(5e-324)),
        p("float-17-digits", Kind::Float, OV::Float(123456789.12345679)),
        p("float-1e17", Kind::Float, OV::Float(1.2345678912345678e17)),
        Pv { class: "float-nan", kind: Kind::Float, v: OV::Float(f64::NAN), expressible: false, tier: 0 },
        Pv { class: "float-inf", kind: Kind::Float, v: OV::Float(f64::INFINITY), expressible: false, tier: 0 },
        Pv { class: "float-neg-inf", kind: Kind::Float, v: OV::Float(f64::NEG_INFINITY), expressible: false, tier: 0 },
        p("null", Kind::Null, OV::Null),
        p("bool-true", Kind::Bool, OV::Bool(true)),
        p("bool-false", Kind::Bool, OV::Bool(false)),
        t("text-plain", "hello"),
        t("text-empty", ""),
        t("text-quote", "it's"),
        t("text-two-quotes", "a''b"),
        t("text-only-quote", "'"),
        t("text-line-comment", "x--y"),
        t("text-block-comment", "x/*y*/z"),
        t("text-semicolon", "a;b"),
        t("text-qmark", "a?b"),
        t("text-dollar1", "a$1b"),
        t("text-backslash", "a\\b"),
        t("text-backslash-quote", "a\\'b"),
        t("text-nul", "a\0b"),
        t("text-newline", "a\nb\r\n"),
        t("text-unicode", "é日😀"),
        t("text-inject-drop", "x'); DROP TABLE other; --"),
        t("text-inject-delete", "x'; DELETE FROM other; --"),
        t("text-inject-or", "' OR '1'='1"),
        t("text-number-like", "42"),
        t("text-null-word", "NULL"),
        t("text-2kb", &ascii_of(2048, 3)),
        p("blob-typical", Kind::Blob, OV::Blob(vec![1, 2, 3])),
        p("blob-empty", Kind::Blob, OV::Blob(vec![])),
        p("blob-00-ff", Kind::Blob, OV::Blob(vec![0, 0xFF, 0x27, 0x00])),
        p("blob-utf8", Kind::Blob, OV::Blob(b"abc".to_vec())),
        p("blob-1500", Kind::Blob, OV::Blob((0..1500).map(|i| (i * 7 % 251) as u8 | 0x80).collect())),
    ];
    if thorough {
        let mut more = vec![
            p("int-1", Kind::Int, OV::Int(1)),
            p("int-2^63-2", Kind::Int, OV::Int(i64::MAX - 1)),
            p("int-neg-2^31", Kind::Int, OV::Int(-(1 << 31))),
            p("float-max", Kind::Float, OV::Float(f64::MAX)),
            p("float-min-normal", Kind::Float, OV::Float(f64::MIN_POSITIVE)),
            p("float-neg", Kind::Float, OV::Float(-2.75)),
            p("float-1e15", Kind::Float, OV::Float(1e15)),
            p("float-1e16", Kind::Float, OV::Float(1e16)),
            t("text-percent", "50%_x"),
            t("text-dquote", "say \"x\""),
            t("text-backtick", "a`b"),
            t("text-colon-name", "a :name b"),
            t("text-dollar-dollar", "a $$ b $tag$"),
            t("text-trailing-backslash", "ab\\"),
            t("text-999", &ascii_of(999, 5)),
            t("text-1001", &ascii_of(1001, 6)),
            t("text-9000", &ascii_of(9000, 7)),
            p("blob-17-fe", Kind::Blob, OV::Blob(vec![0xFE, 1, 0, 0, 0, 0, 0, 0, 0, 0, 0, 0, 0, 0, 0, 0, 9])),
            p("blob-9000", Kind::Blob, OV::Blob((0..9000).map(|i| (i % 256) as u8).collect())),
        ];
        for m in &mut more {
            m.tier = 1;
        }
        v.extend(more);
    }
    v
}

// ---------------------------------------------------------------- templates
#[derive(Clone, Copy, Debug, PartialEq)]
enum Slot {
    /// integer key: value of the first / second execution
    Id(i64, i64),
    /// the value under test
    Val,
    /// a second, fixed text parameter (first / second execution)
    Txt(&'static str, &'static str),
    /// LIMIT operand
    Lim(i64, i64),
}
#[derive(Clone, Debug)]
struct Tmpl {
    name: &'static str,
    /// statement with `{T}` for the table and `?` / `$n` placeholders
    sql: &'static str,
    /// slots in PARAMETER order (params[i] is bound to `$i+1` / the i-th `?`)
    slots: &'static [Slot],
    /// order in which the placeholders appear in the text (indices into slots); for `?` templates 0,1,2..
    text_order: &'static [usize],
    pk: bool,
    select: bool,
    /// kinds this template is run with (None = all)
    only_int: bool,
}
const fn t(name: &'static str, sql: &'static str, slots: &'static [Slot], text_order: &'static [usize], pk: bool, select: bool) -> Tmpl {
    Tmpl { name, sql, slots, text_order, pk, select, only_int: false }
}
fn templates() -> Vec<Tmpl> {
    use Slot::*;
    let mut v = vec![
        t("insert-1-of-3", "INSERT INTO {T} VALUES (10, ?, 'x')", &[Val], &[0], true, false),
        t("insert-1-of-3-nokey", "INSERT INTO {T} VALUES (10, ?, 'x')", &[Val], &[0], false, false),
        t("insert-2-of-3", "INSERT INTO {T} VALUES (?, ?, 'x')", &[Id(10, 11), Val], &[0, 1], true, false),
        t("insert-all", "INSERT INTO {T} VALUES (?, ?, ?)", &[Id(10, 11), Val, Txt("p", "q")], &[0, 1, 2], true, false),
        t("insert-all-nokey", "INSERT INTO {T} VALUES (?, ?, ?)", &[Id(10, 11), Val, Txt("p", "q")], &[0, 1, 2], false, false),
        t("insert-column-list", "INSERT INTO {T} (id, a) VALUES (?, ?)", &[Id(10, 11), Val], &[0, 1], true, false),
        t("insert-column-list-reordered", "INSERT INTO {T} (b, a, id) VALUES (?, ?, ?)", &[Txt("p", "q"), Val, Id(10, 11)], &[0, 1, 2], true, false),
        t("insert-two-rows", "INSERT INTO {T} VALUES (?, ?, 'x'), (?, ?, 'y')", &[Id(10, 12), Val, Id(11, 13), Val], &[0, 1, 2, 3], true, false),
        t("update-set-where-pk", "UPDATE {T} SET a = ? WHERE id = ?", &[Val, Id(1, 2)], &[0, 1], true, false),
        t("update-set-where-pk-absent", "UPDATE {T} SET a = ? WHERE id = ?", &[Val, Id(77, 78)], &[0, 1], true, false),
        t("update-set-where-id-nokey", "UPDATE {T} SET a = ? WHERE id = ?", &[Val, Id(1, 2)], &[0, 1], false, false),
        t("update-set-literal-where", "UPDATE {T} SET a = ? WHERE id = 1", &[Val], &[0], true, false),
        t("update-two-sets-where-pk", "UPDATE {T} SET a = ?, b = ? WHERE id = ?", &[Val, Txt("p", "q"), Id(1, 2)], &[0, 1, 2], true, false),
        t("update-mixed-set-where-pk", "UPDATE {T} SET b = 'z', a = ? WHERE id = ?", &[Val, Id(1, 2)], &[0, 1], true, false),
        t("update-where-value", "UPDATE {T} SET b = 'z' WHERE a = ?", &[Val], &[0], true, false),
        t("update-all-rows", "UPDATE {T} SET a = ?", &[Val], &[0], true, false),
        t("delete-where-pk", "DELETE FROM {T} WHERE id = ?", &[Id(1, 2)], &[0], true, false),
        t("delete-where-value", "DELETE FROM {T} WHERE a = ?", &[Val], &[0], true, false),
        t("select-where-value", "SELECT * FROM {T} WHERE a = ?", &[Val], &[0], true, true),
        t("select-where-pk", "SELECT * FROM {T} WHERE id = ?", &[Id(1, 2)], &[0], true, true),
        t("select-where-pk-and-value", "SELECT * FROM {T} WHERE id = ? AND a = ?", &[Id(4, 1), Val], &[0, 1], true, true),
        t("select-list", "SELECT id, ? FROM {T} WHERE id = 1", &[Val], &[0], true, true),
        t("select-limit", "SELECT * FROM {T} WHERE 1=1 LIMIT ?", &[Lim(2, 0)], &[0], true, true),
        t("insert-positional", "INSERT INTO {T} VALUES ($1, $2, 'x')", &[Id(10, 11), Val], &[0, 1], true, false),
        t("insert-positional-reordered", "INSERT INTO {T} VALUES ($2, $1, 'x')", &[Val, Id(10, 11)], &[1, 0], true, false),
        t("update-positional", "UPDATE {T} SET a = $1 WHERE id = $2", &[Val, Id(1, 2)], &[0, 1], true, false),
        t("update-positional-reordered", "UPDATE {T} SET a = $2 WHERE id = $1", &[Id(1, 2), Val], &[1, 0], true, false),
        t("delete-positional", "DELETE FROM {T} WHERE id = $1", &[Id(1, 2)], &[0], true, false),
        t("select-positional-reused", "SELECT * FROM {T} WHERE id = $1 OR id = $1 + 1", &[Id(1, 2)], &[0, 0], true, true),
        t("select-positional-value", "SELECT * FROM {T} WHERE a = $1", &[Val], &[0], true, true),
    ];
    for x in &mut v {
        if !x.slots.contains(&Slot::Val) {
            x.only_int = true; // no value under test: run once (with the int-typical column)
        }
    }
    v
}

#[derive(Clone, Copy, Debug, PartialEq, Eq, PartialOrd, Ord)]
enum Path {
    Params,
    PreparedFirst,
    PreparedSecond,
    AfterCreateIndex,
    AfterAddColumn,
    PreparedQuery,
}
impl Path {
    fn name(self) -> &'static str {
        match self {
            Path::Params => "params",
            Path::PreparedFirst => "prepared-first",
            Path::PreparedSecond => "prepared-second",
            Path::AfterCreateIndex => "prepared-after-ddl(create-index)",
            Path::AfterAddColumn => "prepared-after-ddl(add-column)",
            Path::PreparedQuery => "prepared-query",
        }
    }
    fn from(s: &str) -> Option<Path> {
        [Path::Params, Path::PreparedFirst, Path::PreparedSecond, Path::AfterCreateIndex, Path::AfterAddColumn, Path::PreparedQuery].into_iter().find(|p| p.name() == s)
    }
}

#[derive(Clone)]
struct Case {
    tmpl: usize,
    val: usize,
    path: Path,
}

// ---------------------------------------------------------------- execution
fn ov_eq(a: &OV, b: &OV) -> bool {
    match (a, b) {
        (OV::Float(x), OV::Float(y)) => (x.is_nan() && y.is_nan()) || x.to_bits() == y.to_bits(),
        _ => a == b,
    }
}
fn show(v: &OV) -> String {
    match v {
        OV::Text(s) if s.len() > 80 => format!("Text({} bytes, h={:016x})", s.len(), vcore::util::hash_str(s)),
        OV::Blob(b) if b.len() > 40 => format!("Blob({} bytes, h={:016x})", b.len(), vcore::util::hash_bytes(b)),
        o => format!("{o:?}"),
    }
}
fn params_for(tm: &Tmpl, val: &Pv, second: bool) -> Vec<OV> {
    tm.slots
        .iter()
        .map(|s| match s {
            Slot::Id(a, b) => OV::Int(if second { *b } else { *a }),
            Slot::Val => val.v.clone(),
            Slot::Txt(a, b) => OV::Text(if second { b } else { a }.to_string()),
            Slot::Lim(a, b) => OV::Int(if second { *b } else { *a }),
        })
        .collect()
}
/// Replace the placeholders of `sql` (in text order) by the harness's literal rendering.
fn render_literal(tm: &Tmpl, table: &str, params: &[OV]) -> String {
    let sql = tm.sql.replace("{T}", table);
    let mut out = String::new();
    let b = sql.as_bytes();
    let mut i = 0;
    let mut k = 0usize;
    while i < b.len() {
        if b[i] == b'\'' {
            // copy the quoted literal untouched
            let mut j = i + 1;
            while j < b.len() {
                if b[j] == b'\'' {
                    if j + 1 < b.len() && b[j + 1] == b'\'' {
                        j += 2;
                        continue;
                    }
                    break;
                }
                j += 1;
            }
            out.push_str(&sql[i..=j.min(b.len() - 1)]);
            i = j + 1;
        } else if b[i] == b'?' {
            out.push_str(&lit(&to_v(&params[tm.text_order[k]])));
            k += 1;
            i += 1;
        } else if b[i] == b'$' && i + 1 < b.len() && b[i + 1].is_ascii_digit() {
            let mut j = i + 1;
            while j < b.len() && b[j].is_ascii_digit() {
                j += 1;
            }
            let n: usize = sql[i + 1..j].parse().unwrap_or(1);
            out.push_str(&lit(&to_v(&params[n - 1])));
            k += 1;
            i = j;
        } else {
            let ch = sql[i..].chars().next().unwrap();
            out.push(ch);
            i += ch.len_utf8();
        }
    }
    out
}

/// files of `dir` except those of the per-case tables t<N> other than `table`
fn files_for(dir: &std::path::Path, table: &str) -> BTreeSet<String> {
    files_of(dir)
        .into_iter()
        .filter(|f| {
            let name = f.rsplit('/').next().unwrap_or(f);
            let is_case_table = name.starts_with('t') && name[1..].chars().next().map(|c| c.is_ascii_digit()).unwrap_or(false);
            !is_case_table || name.starts_with(&format!("{table}.")) || name.starts_with(&format!("{table}_"))
        })
        .collect()
}
fn files_of(dir: &std::path::Path) -> BTreeSet<String> {
    fn walk(d: &std::path::Path, base: &std::path::Path, out: &mut BTreeSet<String>) {
        if let Ok(rd) = std::fs::read_dir(d) {
            for e in rd.flatten() {
                let p = e.path();
                if p.is_dir() {
                    if p.file_name().map(|n| n == "wal").unwrap_or(false) {
                        continue;
                    }
                    walk(&p, base, out);
                } else {
                    out.insert(p.strip_prefix(base).unwrap_or(&p).to_string_lossy().to_string());
                }
            }
        }
    }
    let mut s = BTreeSet::new();
    walk(dir, dir, &mut s);
    s
}

fn res_class_eq(a: &Res, b: &Res) -> Option<&'static str> {
    match (a, b) {
        // the same failure on both sides is the same behaviour (it belongs to another property)
        (Res::Panic(_), Res::Panic(_)) => None,
        (Res::Panic(_), _) | (_, Res::Panic(_)) => Some("panic"),
        (Res::Err(_), Res::Err(_)) => None,
        (Res::Err(_), _) | (_, Res::Err(_)) => Some("error-one-side"),
        (Res::Rows(x), Res::Rows(y)) => {
            if refmodel::val::bag(x) == refmodel::val::bag(y) {
                None
            } else {
                Some("rows")
            }
        }
        (Res::Affected(x, _), Res::Affected(y, _)) => {
            if x == y {
                None
            } else {
                Some("affected")
            }
        }
        (Res::Done(x), Res::Done(y)) if x == y => None,
        _ => Some("rows"),
    }
}

struct Twin {
    a: TestDb,
    b: TestDb,
}
fn setup_twin(scratch: &std::path::Path, name: &str) -> Result<Twin, String> {
    let a = TestDb::create(scratch, &format!("{name}_a"))?;
    let b = TestDb::create(scratch, &format!("{name}_b"))?;
    for db in [a.db(), b.db()] {
        for s in ["CREATE TABLE other (id INT PRIMARY KEY, x TEXT)", "INSERT INTO other VALUES (1, 'keep')", "INSERT INTO other VALUES (2, 'keep too')"] {
            if !exec(db, s).ok() {
                return Err(format!("setup failed: {s}"));
            }
        }
    }
    Ok(Twin { a, b })
}

struct Outcome {
    what: String,
    expected: String,
    observed: String,
}

/// run the bound statement on A through `path`; returns (first result, second result if any, cached insert plan present, cached update plan present)
fn run_bound(db: &Database, sql: &str, p1: &[OV], p2: &[OV], path: Path, ddl: Option<&str>) -> (Res, Option<Res>, bool, bool) {
    let bind_exec = |stmt: &turdb::PreparedStatement, p: &[OV]| -> Res {
        match vcore::catch(|| {
            let mut b = stmt.bind(p[0].clone());
            for x in &p[1..] {
                b = b.bind(x.clone());
            }
            b.execute(db).map_err(|e| format!("{e:#}"))
        }) {
            Ok(r) => norm(r),
            Err(p) => Res::Panic(p),
        }
    };
    match path {
        Path::Params => (checks::sqlh::exec_params(db, sql, p1), None, false, false),
        Path::PreparedQuery => {
            let r = match vcore::catch(|| {
                let stmt = db.prepare(sql).map_err(|e| format!("{e:#}"))?;
                let mut b = stmt.bind(p1[0].clone());
                for x in &p1[1..] {
                    b = b.bind(x.clone());
                }
                b.query(db).map_err(|e| format!("{e:#}"))
            }) {
                Ok(Ok(rows)) => Res::Rows(rows.iter().map(checks::sqlh::row_to_v).collect()),
                Ok(Err(e)) => Res::Err(e),
                Err(p) => Res::Panic(p),
            };
            (r, None, false, false)
        }
        _ => {
            let stmt = match vcore::catch(|| db.prepare(sql).map_err(|e| format!("{e:#}"))) {
                Ok(Ok(s)) => s,
                Ok(Err(e)) => return (Res::Err(format!("prepare: {e}")), None, false, false),
                Err(p) => return (Res::Panic(p), None, false, false),
            };
            let r1 = bind_exec(&stmt, p1);
            let ci = stmt.cached_insert_plan().is_some();
            let cu = stmt.cached_update_plan().is_some();
            if path == Path::PreparedFirst {
                return (r1, None, ci, cu);
            }
            if let Some(d) = ddl {
                let _ = exec(db, d);
            }
            let r2 = bind_exec(&stmt, p2);
            (r1, Some(r2), ci, cu)
        }
    }
}

fn ddl_for(path: Path, table: &str) -> Option<String> {
    match path {
        Path::AfterCreateIndex => Some(format!("CREATE INDEX ix_{table} ON {table} (a)")),
        Path::AfterAddColumn => Some(format!("ALTER TABLE {table} ADD COLUMN c INT")),
        _ => None,
    }
}

/// Execute one case in the twin; `table` must be fresh in both databases.
fn run_case(tw: &Twin, tm: &Tmpl, val: &Pv, path: Path, table: &str, rep: &mut Reporter) -> Option<Outcome> {
    let (da, db_) = (tw.a.db(), tw.b.db());
    let ddl = format!("CREATE TABLE {table} (id INT{}, a {}, b TEXT)", if tm.pk { " PRIMARY KEY" } else { "" }, val.kind.ddl());
    let base = val.kind.base();
    let setup = [ddl.clone(), format!("INSERT INTO {table} VALUES (1, {base}, 'one')"), format!("INSERT INTO {table} VALUES (2, {base}, 'two')"), format!("INSERT INTO {table} VALUES (3, NULL, 'three')")];
    for s in &setup {
        let (ra, rb) = (exec(da, s), exec(db_, s));
        if !ra.ok() || !rb.ok() {
            return Some(Outcome { what: "setup-failed".into(), expected: format!("{s} succeeds in both twins"), observed: format!("A: {} / B: {}", ra.show(), rb.show()) });
        }
    }
    // row 4 holds the value under test (written through the same API call in both twins)
    for db in [da, db_] {
        let r = checks::sqlh::exec_params(db, &format!("INSERT INTO {table} VALUES (?, ?, ?)"), &[OV::Int(4), val.v.clone(), OV::Text("four".into())]);
        if !matches!(r, Res::Affected(1, _)) {
            return Some(Outcome { what: "setup-failed".into(), expected: "row 4 with the value under test can be inserted".into(), observed: r.show() });
        }
    }
    let check_files = val.class.starts_with("text-inject");
    let files_before = if check_files { (files_for(&tw.a.dir, table), files_for(&tw.b.dir, table)) } else { (BTreeSet::new(), BTreeSet::new()) };
    let p1 = params_for(tm, val, false);
    let p2 = params_for(tm, val, true);
    let sql = tm.sql.replace("{T}", table);
    let dd = ddl_for(path, table);
    let two = matches!(path, Path::PreparedSecond | Path::AfterCreateIndex | Path::AfterAddColumn);
    // A: bound
    let (a1, a2, ci, cu) = run_bound(da, &sql, &p1, &p2, path, dd.as_deref());
    if ci {
        rep.count("prepared_insert_plan_cached_after_first_execution", 1);
    }
    if cu {
        rep.count("prepared_update_plan_cached_after_first_execution", 1);
    }
    // B: literals
    let l1 = render_literal(tm, table, &p1);
    let l2 = render_literal(tm, table, &p2);
    let direct_only = !val.expressible && tm.slots.contains(&Slot::Val);
    let (b1, b2) = if direct_only {
        // no literal twin, but keep the schemas of the twins in step
        if let (true, Some(d)) = (two, &dd) {
            let _ = exec(db_, d);
        }
        (None, None)
    } else {
        let b1 = exec(db_, &l1);
        let b2 = if two {
            if let Some(d) = &dd {
                let _ = exec(db_, d);
            }
            Some(exec(db_, &l2))
        } else {
            None
        };
        (Some(b1), b2)
    };
    let describe = |second: bool| if second { format!("{} with {:?} (second execution), twin: {}", sql, p2.iter().map(show).collect::<Vec<_>>(), vcore::util::clip(&l2, 300)) } else { format!("{} with {:?}, twin: {}", sql, p1.iter().map(show).collect::<Vec<_>>(), vcore::util::clip(&l1, 300)) };
    // 1. results
    if let Some(b1) = &b1 {
        // the first execution of a two-execution path is the prepared-first case; only judge it there
        if !two {
            if let Some(w) = res_class_eq(&a1, b1) {
                return Some(Outcome { what: w.into(), expected: format!("{} => {}", describe(false), b1.show()), observed: a1.show() });
            }
        } else if res_class_eq(&a1, b1).is_some() {
            // diverged already at the first execution: that is the prepared-first case's verdict; stop here
            rep.pruned(1);
            return None;
        }
        if let (Some(a2), Some(b2)) = (&a2, &b2) {
            if let Some(w) = res_class_eq(a2, b2) {
                return Some(Outcome { what: w.into(), expected: format!("{} => {}", describe(true), b2.show()), observed: a2.show() });
            }
        }
    } else {
        // no literal twin: the bound statement must at least not panic
        for r in [Some(&a1), a2.as_ref()].into_iter().flatten() {
            if let Res::Panic(p) = r {
                return Some(Outcome { what: "panic".into(), expected: format!("{} returns", describe(false)), observed: format!("PANIC({p})") });
            }
        }
    }
    if let (Some(Res::Err(_)), Some(Res::Err(_))) = (&a2, &b2) {
        rep.count("cases_both_twins_failed", 1);
    }
    match (&a1, &b1) {
        (Res::Err(_), Some(Res::Err(_))) => rep.count("cases_both_twins_failed", 1),
        (Res::Panic(_), Some(Res::Panic(_))) => rep.count("cases_both_twins_panicked", 1),
        (x, Some(y)) if x.ok() && y.ok() => rep.count("cases_both_twins_succeeded", 1),
        _ => {}
    }
    // 2. post-state
    let mut queries = vec![format!("SELECT * FROM {table}"), format!("SELECT COUNT(*) FROM {table}"), "SELECT * FROM other".to_string(), "SELECT COUNT(*) FROM other".to_string()];
    for id in [1, 2, 3, 4, 10, 11, 12, 13] {
        queries.push(format!("SELECT * FROM {table} WHERE id = {id}"));
    }
    if !direct_only {
        let oa = checks::sqlh::observe(da, &queries);
        let ob = checks::sqlh::observe(db_, &queries);
        if let Some((q, x, y)) = checks::sqlh::obs_diff(&oa, &ob) {
            let what = if q.contains("other") { "schema-changed" } else { "stored-value" };
            return Some(Outcome { what: what.into(), expected: format!("after {}: {q} => {y}", describe(two)), observed: x });
        }
    }
    // 3. schema: the statement created / removed no file, in either twin
    let files_after = if check_files { (files_for(&tw.a.dir, table), files_for(&tw.b.dir, table)) } else { (BTreeSet::new(), BTreeSet::new()) };
    let ddl_files = dd.is_some();
    if check_files {
        rep.count("injection_probes_with_file_set_check", 1);
    }
    if !ddl_files && (files_after.0 != files_before.0) {
        let diff: Vec<&String> = files_after.0.symmetric_difference(&files_before.0).collect();
        return Some(Outcome { what: "schema-changed".into(), expected: "the set of database files is unchanged by a DML statement".into(), observed: format!("files changed: {diff:?}") });
    }
    if files_after.0 != files_after.1 {
        let diff: Vec<&String> = files_after.0.symmetric_difference(&files_after.1).collect();
        return Some(Outcome { what: "schema-changed".into(), expected: "both twins have the same set of files".into(), observed: format!("differ in {diff:?}") });
    }
    // other table untouched (direct)
    match exec(da, "SELECT * FROM other") {
        Res::Rows(r) if refmodel::val::bag(&r) == vec![vec![V::Int(1), V::Text("keep".into())], vec![V::Int(2), V::Text("keep too".into())]] => {}
        o => return Some(Outcome { what: "schema-changed".into(), expected: "table other still holds its two rows".into(), observed: o.show() }),
    }
    // 4. direct oracle: a successfully bound value is stored verbatim
    if tm.slots.contains(&Slot::Val) && !tm.select {
        let last_ok = |r: &Res| matches!(r, Res::Affected(n, _) if *n >= 1);
        let checks: Vec<(bool, &Res)> = if two { vec![(false, &a1), (true, a2.as_ref().unwrap_or(&a1))] } else { vec![(false, &a1)] };
        for (second, r) in checks {
            if !last_ok(r) {
                continue;
            }
            let ps = if second { &p2 } else { &p1 };
            // which row was written?
            let id = tm.slots.iter().zip(ps.iter()).find_map(|(s, p)| if let (Slot::Id(..), OV::Int(i)) = (s, p) { Some(*i) } else { None });
            let id = match (id, tm.name) {
                (Some(i), _) => i,
                (None, n) if n.starts_with("insert-1-of-3") => 10,
                (None, "update-set-literal-where") => 1,
                _ => continue,
            };
            if tm.name == "insert-1-of-3-nokey" && two {
                continue; // two rows with id 10
            }
            let q = format!("SELECT * FROM {table} WHERE id = {id}");
            let got = vcore::catch(|| da.query(&q).map_err(|e| format!("{e:#}")));
            let exp_desc = format!("after {}: row {id} holds a = {}", describe(second), show(&val.v));
            match got {
                Ok(Ok(rows)) => {
                    if rows.len() != 1 {
                        return Some(Outcome { what: "stored-value-direct".into(), expected: exp_desc, observed: format!("{q} => {} rows", rows.len()) });
                    }
                    let a = rows[0].get(1).cloned().unwrap_or(OV::Null);
                    if !ov_eq(&a, &val.v) {
                        return Some(Outcome { what: "stored-value-direct".into(), expected: exp_desc, observed: format!("a = {}", show(&a)) });
                    }
                }
                // a failing read was already compared with the twin's (step 2); without a twin it is a verdict
                Ok(Err(e)) if direct_only => return Some(Outcome { what: "stored-value-direct".into(), expected: exp_desc, observed: format!("{q} => Err({e})") }),
                Err(p) if direct_only => return Some(Outcome { what: "panic".into(), expected: exp_desc, observed: format!("{q} => PANIC({p})") }),
                _ => {}
            }
        }
    }
    None
}

const CORE: [&str; 9] = ["insert-all", "insert-2-of-3", "insert-positional", "update-set-where-pk", "update-where-value", "delete-where-value", "select-where-value", "select-list", "update-set-literal-where"];
const MEDIUM: [&str; 20] = ["int-typical", "int-min", "int-max", "float-typical", "float-neg-zero", "float-1e300", "float-nan", "null", "bool-true", "bool-false", "text-plain", "text-quote", "text-two-quotes", "text-qmark", "text-dollar1", "text-nul", "text-inject-drop", "text-2kb", "blob-typical", "blob-00-ff"];
const REDUCED: [&str; 9] = ["int-typical", "float-typical", "null", "bool-true", "text-plain", "text-quote", "text-inject-drop", "text-2kb", "blob-typical"];
fn cases(tms: &[Tmpl], vals: &[Pv], thorough: bool) -> Vec<Case> {
    let mut v = Vec::new();
    for path in [Path::Params, Path::PreparedFirst, Path::PreparedQuery, Path::PreparedSecond, Path::AfterCreateIndex, Path::AfterAddColumn] {
        for (ti, tm) in tms.iter().enumerate() {
            if path == Path::PreparedQuery && !tm.select {
                continue;
            }
            for (vi, pv) in vals.iter().enumerate() {
                if tm.only_int && pv.class != "int-typical" {
                    continue;
                }
                // ALTER TABLE ADD COLUMN makes later reads of rewritten rows panic in BOTH twins (not this property's
                // defect); values without a literal twin (NaN, +-inf) cannot be cross-checked there: excluded from that path
                if path == Path::AfterAddColumn && !pv.expressible {
                    continue;
                }
                // quick tier: the full value set runs on the core templates through execute_with_params and through
                // prepare+query (textual substitution); elsewhere a medium set (every kind + the quoting specials);
                // after DDL a reduced set (plan invalidation does not depend on the value)
                if !thorough {
                    let repeated = matches!(path, Path::PreparedSecond | Path::AfterCreateIndex | Path::AfterAddColumn);
                    let ddl = matches!(path, Path::AfterCreateIndex | Path::AfterAddColumn);
                    let full = (path == Path::Params && CORE.contains(&tm.name)) || path == Path::PreparedQuery;
                    let ok = if ddl || (repeated && tm.select) { REDUCED.contains(&pv.class) } else if full { true } else { MEDIUM.contains(&pv.class) };
                    if !ok {
                        continue;
                    }
                }
                v.push(Case { tmpl: ti, val: vi, path });
            }
        }
    }
    v
}

fn sig(tm: &Tmpl, pv: &Pv, path: Path, what: &str) -> String {
    let vc = if tm.only_int { "-" } else { pv.class };
    format!("C13/{}/{}/{}/{}", tm.name, vc, path.name(), what)
}
fn case_json(tm: &Tmpl, pv: &Pv, path: Path) -> Value {
    let p1 = params_for(tm, pv, false);
    json!({"template": tm.name, "sql": tm.sql, "value": pv.class, "path": path.name(), "column_type": pv.kind.ddl(), "pk": tm.pk,
           "params_first": p1.iter().map(show).collect::<Vec<_>>(), "literal_twin_first": vcore::util::clip(&render_literal(tm, "T", &p1), 400)})
}

struct C13;
const BATCH: usize = 120;

impl Check for C13 {
    fn specs(&self) -> Vec<Spec> {
        let mut s = Spec::new(
            "C13",
            "exploration",
            "exhaustive product: 30 statement templates (INSERT with 1/2/3/4 placeholders, with a column list in and out of table order, multi-row; UPDATE SET a=? WHERE id=? (the cached PK fast path), with two assignments, a literal among the assignments, WHERE on the value, no WHERE; DELETE by key / by value; SELECT with ? in WHERE, in the select list and in LIMIT; $n positional in order, out of order and reused) x parameter values (ints incl. i64 MIN/MAX, floats incl. -0, subnormal, 1e300, NaN, +-inf, NULL, booleans, text with ' '' -- /* ; ? $1 backslash NUL newline, SQL-injection strings, 2 KB text, blobs) bound into a column of the matching type x API path {execute_with_params, prepare+bind+execute, the same prepared statement executed a second time (cached plan), executed again after CREATE INDEX / ALTER TABLE ADD COLUMN, prepare+bind+query for SELECT}; every case runs on a fresh table in twin databases. Distinct by construction; a case is non-trivial when the statement ran in at least one twin.",
        );
        s.assumptions = &[
            "the literal twin uses checks::sqlh::lit (harness renderer), never TurDB's value_to_sql_literal; floats are always rendered with a decimal point or exponent",
            "two errors count as the same result (messages are not compared); values with no literal spelling (NaN, +-inf) are checked against the bound value directly and for no-panic only",
            "when a two-execution path already differs at its first execution the case is cut there (that difference is the prepared-first case's verdict)",
            "schema = set of files in the database directory (wal/ excluded) + contents of a second table `other`",
        ];
        s.cap_quick_s = 100;
        s.cap_thorough_s = 1500;
        vec![s]
    }

    fn run(&self, ctx: &Ctx, rep: &mut Reporter) {
        std::env::set_var("RUST_BACKTRACE", "0");
        let thorough = !ctx.quick();
        let tms = templates();
        let vals = values(thorough);
        let all = cases(&tms, &vals, thorough);
        rep.bound("templates", json!(tms.iter().map(|t| t.name).collect::<Vec<_>>()));
        rep.bound("values", json!(vals.iter().map(|v| v.class).collect::<Vec<_>>()));
        rep.bound("cases", json!(all.len()));
        for k in ["prepared_insert_plan_cached_after_first_execution", "prepared_update_plan_cached_after_first_execution", "cases_both_twins_succeeded", "cases_both_twins_failed"] {
            rep.expect_nonzero(k);
        }
        let only_t = ctx.opt("template");
        let mut first_seen: BTreeMap<String, u32> = BTreeMap::new();
        for (bi, chunk) in all.chunks(BATCH).enumerate() {
            if !ctx.mine(bi as u64) {
                continue;
            }
            if ctx.expired() {
                rep.capped("deadline before all batches ran");
                return;
            }
            if let Some(o) = only_t {
                if !chunk.iter().any(|c| tms[c.tmpl].name == o) {
                    continue;
                }
            }
            let tw = match setup_twin(&ctx.scratch, &format!("b{bi}")) {
                Ok(t) => t,
                Err(e) => {
                    rep.note(&format!("twin setup failed: {e}"));
                    rep.capped("twin setup failed");
                    return;
                }
            };
            for (ci, c) in chunk.iter().enumerate() {
                let (tm, pv) = (&tms[c.tmpl], &vals[c.val]);
                if let Some(o) = only_t {
                    if tm.name != o {
                        continue;
                    }
                }
                rep.begin_case(&format!("{} {} {}", tm.name, pv.class, c.path.name()));
                let out = run_case(&tw, tm, pv, c.path, &format!("t{ci}"), rep);
                rep.bulk(1, 1);
                rep.count(&format!("cases_path_{}", c.path.name()), 1);
                rep.count(&format!("cases_kind_{:?}", pv.kind), 1);
                match out {
                    None => {
                        rep.outcome("agree");
                    }
                    Some(o) => {
                        let s = sig(tm, pv, c.path, &o.what);
                        rep.outcome(&o.what);
                        let n = first_seen.entry(s.clone()).or_insert(0);
                        *n += 1;
                        // first manifestation per worker: re-execute in a fresh twin pair
                        let mut sname = s.clone();
                        let mut batch_only = false;
                        if *n == 1 {
                            rep.count("violations_reexecuted_in_fresh_twins", 1);
                            if let Ok(tw2) = setup_twin(&ctx.scratch, &format!("iso{bi}")) {
                                let mut scratch_rep = Reporter::new("C13", None);
                                let again = run_case(&tw2, tm, pv, c.path, "t0", &mut scratch_rep);
                                if again.map(|x| x.what) != Some(o.what.clone()) {
                                    sname = format!("{s}/batch-only");
                                    batch_only = true;
                                    rep.count("violations_only_in_batch", 1);
                                }
                            }
                        }
                        if batch_only {
                            rep.violation("C13", "twin", &sname, || json!({"mode": "batch", "batch": bi, "upto": ci, "template": tm.name, "value": pv.class, "path": c.path.name()}), &o.expected, &o.observed);
                        } else {
                            rep.violation("C13", "twin", &sname, || case_json(tm, pv, c.path), &o.expected, &o.observed);
                        }
                    }
                }
            }
            // the twins created exactly the same files
            let (fa, fb) = (files_of(&tw.a.dir), files_of(&tw.b.dir));
            rep.count("batches_file_sets_compared", 1);
            if fa != fb {
                let diff: Vec<&String> = fa.symmetric_difference(&fb).collect();
                rep.count("batches_file_sets_differ", 1);
                rep.note(&format!("batch {bi}: twins differ in files {diff:?}"));
            }
        }
        rep.sample(|| case_json(&tms[8], &vals[24], Path::PreparedSecond));
    }

    fn replay(&self, ctx: &Ctx, case: &Value, rep: &mut Reporter) {
        std::env::set_var("RUST_BACKTRACE", "0");
        let tms = templates();
        if case["mode"].as_str() == Some("batch") {
            // re-run the batch prefix in a fresh twin pair; only the last case is judged
            let thorough = !ctx.quick();
            let vals = values(thorough);
            let all = cases(&tms, &vals, thorough);
            let bi = case["batch"].as_u64().unwrap_or(0) as usize;
            let upto = case["upto"].as_u64().unwrap_or(0) as usize;
            let Some(chunk) = all.chunks(BATCH).nth(bi) else {
                rep.note("replay: unknown batch");
                return;
            };
            let Ok(tw) = setup_twin(&ctx.scratch, "replay_batch") else {
                rep.note("replay: twin setup failed");
                return;
            };
            for (ci, c) in chunk.iter().enumerate().take(upto + 1) {
                let (tm, pv) = (&tms[c.tmpl], &vals[c.val]);
                let out = run_case(&tw, tm, pv, c.path, &format!("t{ci}"), rep);
                rep.bulk(1, 1);
                if ci == upto {
                    if let Some(o) = out {
                        rep.violation("C13", "twin", &format!("{}/batch-only", sig(tm, pv, c.path, &o.what)), || case.clone(), &o.expected, &o.observed);
                    }
                }
            }
            return;
        }
        let vals = values(true);
        let Some(tm) = tms.iter().find(|t| Some(t.name) == case["template"].as_str()) else {
            rep.note("replay: unknown template");
            return;
        };
        let Some(pv) = vals.iter().find(|v| Some(v.class) == case["value"].as_str()) else {
            rep.note("replay: unknown value");
            return;
        };
        let Some(path) = case["path"].as_str().and_then(Path::from) else {
            rep.note("replay: unknown path");
            return;
        };
        let tw = match setup_twin(&ctx.scratch, "replay") {
            Ok(t) => t,
            Err(e) => {
                rep.note(&e);
                return;
            }
        };
        rep.bulk(1, 1);
        if let Some(o) = run_case(&tw, tm, pv, path, "t0", rep) {
            rep.violation("C13", "twin", &sig(tm, pv, path, &o.what), || case.clone(), &o.expected, &o.observed);
        }
    }
}

fn main() {
    vcore::main(&C13)
}
