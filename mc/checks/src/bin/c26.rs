//! C26 — index key encoding preserves order and is invertible
//! (bounded exhaustive input enumeration of the REAL encoders/decoder).
//!
//! Passes
//!  * `single`    per encodable type: every unordered pair (incl. self pairs) of a
//!                boundary domain: order / distinctness / prefix-freeness; per value:
//!                append semantics, `encode_value` dispatcher, decode round trip with
//!                every trailing-byte variant.
//!  * `cross`     representatives of every type against every other type: documented
//!                prefix rank, distinctness, prefix-freeness.
//!  * `composite` all pairs of 2- and 3-column tuples of reduced domains: column-wise
//!                order, equality, sequential decode.
//!  * `sql`       `Database::encode_value_as_key` is `pub(crate)`; it is observed through
//!                SQL: secondary-index order (`ORDER BY c` answered by a
//!                SecondaryIndexScan = index key order), UNIQUE accept/reject, point
//!                lookups through the index, composite index order.
//!  * `valuekey`  `types::Value::encode_to_key` (pub) agrees with key.rs for the shared
//!                scalar types and is distinct-preserving.
//!
//! The reference order below is written from the module documentation of
//! src/encoding/key.rs only; it never calls TurDB code.
use checks::sqlh::*;
use std::cmp::Ordering;
use turdb::encoding::key::{self, DecodedJson, DecodedKey, JsonValue};
use turdb::OwnedValue;
use vcore::{json, Check, Ctx, Reporter, Spec, Tier, Value};

// ---------------------------------------------------------------------------
// reference values
// ---------------------------------------------------------------------------
#[derive(Clone, Debug, PartialEq)]
enum J {
    Null,
    Bool(bool),
    Num(f64),
    Str(String),
    Arr(Vec<J>),
    Obj(Vec<(String, J)>),
}

#[derive(Clone, Debug, PartialEq)]
enum KV {
    Null,
    Bool(bool),
    Int(i64),
    Float(f64),
    Text(String),
    Blob(Vec<u8>),
    Date(i32),
    Time(i64),
    Ts(i64),
    TsTz(i64, i16),
    Interval(i32, i32, i64), // months, days, micros
    Uuid([u8; 16]),
    Inet(bool, Vec<u8>, u8),
    Mac([u8; 6]),
    Json(J),
    Array(Vec<KV>),
    Tuple(Vec<KV>),
    Range(Option<Box<KV>>, Option<Box<KV>>, bool, bool),
    Enum(u32, u32),
    Composite(u32, Vec<KV>),
    Domain(u32, Box<KV>),
    Vector(Vec<f32>),
}

fn ty(v: &KV) -> &'static str {
    match v {
        KV::Null => "null",
        KV::Bool(_) => "bool",
        KV::Int(_) => "int",
        KV::Float(_) => "float",
        KV::Text(_) => "text",
        KV::Blob(_) => "blob",
        KV::Date(_) => "date",
        KV::Time(_) => "time",
        KV::Ts(_) => "timestamp",
        KV::TsTz(..) => "timestamptz",
        KV::Interval(..) => "interval",
        KV::Uuid(_) => "uuid",
        KV::Inet(..) => "inet",
        KV::Mac(_) => "macaddr",
        KV::Json(_) => "json",
        KV::Array(_) => "array",
        KV::Tuple(_) => "tuple",
        KV::Range(..) => "range",
        KV::Enum(..) => "enum",
        KV::Composite(..) => "composite",
        KV::Domain(..) => "domain",
        KV::Vector(_) => "vector",
    }
}

/// documented rank of the type prefix groups (module docs "Type Prefix Scheme")
fn rank(v: &KV) -> u8 {
    match v {
        KV::Null => 0,
        KV::Bool(_) => 1,
        KV::Int(_) | KV::Float(_) => 2,
        KV::Text(_) => 3,
        KV::Blob(_) => 4,
        KV::Date(_) => 5,
        KV::Time(_) => 6,
        KV::Ts(_) => 7,
        KV::TsTz(..) => 8,
        KV::Interval(..) => 9,
        KV::Uuid(_) => 10,
        KV::Inet(..) => 11,
        KV::Mac(_) => 12,
        KV::Json(_) => 13,
        KV::Array(_) => 14,
        KV::Tuple(_) => 15,
        KV::Range(..) => 16,
        KV::Enum(..) => 17,
        KV::Composite(..) => 18,
        KV::Domain(..) => 19,
        KV::Vector(_) => 20,
    }
}

// ---------------------------------------------------------------------------
// value classes (signature components)
// ---------------------------------------------------------------------------
fn iclass(n: i64) -> String {
    match n {
        0 => return "zero".into(),
        1 => return "pos-one".into(),
        -1 => return "neg-one".into(),
        i64::MAX => return "max".into(),
        i64::MIN => return "min".into(),
        _ => {}
    }
    let sign = if n < 0 { "neg" } else { "pos" };
    let m = n.unsigned_abs();
    for k in 1..64u32 {
        let p = 1u64 << k;
        if m == p {
            return format!("{sign}-2^{k}");
        }
        if k >= 2 && m == p - 1 {
            return format!("{sign}-2^{k}-1");
        }
        if k >= 2 && m == p + 1 {
            return format!("{sign}-2^{k}+1");
        }
    }
    let bytes = (64 - m.leading_zeros() + 7) / 8;
    format!("{sign}-{bytes}byte")
}

fn fclass_parts(neg: bool, exp_zero: bool, exp_max: bool, man: u64, man_max: u64, quiet_bit: u64, is_one: bool, is_maxf: bool, lt1: bool) -> String {
    let s = if neg { "neg" } else { "pos" };
    if exp_max {
        if man == 0 {
            return format!("{s}-inf");
        }
        let base = if neg { "neg-nan" } else { "nan" };
        return if man == quiet_bit { base.to_string() } else { format!("{base}-payload") };
    }
    if exp_zero {
        if man == 0 {
            return format!("{s}-zero");
        }
        if man == 1 {
            return format!("{s}-subnormal-min");
        }
        if man == man_max {
            return format!("{s}-subnormal-max");
        }
        return format!("{s}-subnormal");
    }
    if is_one {
        return format!("{s}-one");
    }
    if is_maxf {
        return format!("{s}-max");
    }
    if lt1 {
        format!("{s}-normal-lt1")
    } else {
        format!("{s}-normal-gt1")
    }
}
fn fclass(f: f64) -> String {
    let b = f.to_bits();
    let e = (b >> 52) & 0x7FF;
    let m = b & ((1u64 << 52) - 1);
    let mut c = fclass_parts(b >> 63 != 0, e == 0, e == 0x7FF, m, (1u64 << 52) - 1, 1u64 << 51, f.abs() == 1.0, f.abs() == f64::MAX, f.abs() < 1.0);
    if f.abs() == f64::MIN_POSITIVE {
        c = format!("{}-min-normal", if f < 0.0 { "neg" } else { "pos" });
    }
    c
}
fn f32class(f: f32) -> String {
    let b = f.to_bits();
    let e = (b >> 23) & 0xFF;
    let m = (b & ((1u32 << 23) - 1)) as u64;
    let mut c = fclass_parts(b >> 31 != 0, e == 0, e == 0xFF, m, (1u64 << 23) - 1, 1u64 << 22, f.abs() == 1.0, f.abs() == f32::MAX, f.abs() < 1.0);
    if f.abs() == f32::MIN_POSITIVE {
        c = format!("{}-min-normal", if f < 0.0 { "neg" } else { "pos" });
    }
    c
}
fn bclass(b: &[u8]) -> String {
    if b.is_empty() {
        "empty".into()
    } else if b.len() <= 5 {
        b.iter().map(|x| format!("{x:02x}")).collect::<Vec<_>>().join(".")
    } else {
        format!("len{}", b.len())
    }
}
fn i32class(n: i32) -> String {
    match n {
        i32::MAX => "max".into(),
        i32::MIN => "min".into(),
        _ => iclass(n as i64),
    }
}
fn u32class(n: u32) -> String {
    match n {
        0 => "0".into(),
        u32::MAX => "max".into(),
        _ => iclass(n as i64),
    }
}
/// class of a JSON value: scalars exactly; containers by kind and length; objects whose first
/// key is empty / starts with U+0000 form their own classes
fn jclass(j: &J) -> String {
    match j {
        J::Null => "null".into(),
        J::Bool(b) => format!("{b}"),
        J::Num(n) => format!("num-{}", fclass(*n)),
        J::Str(s) => format!("str-{}", bclass(s.as_bytes())),
        J::Arr(a) => format!("array-len{}", a.len()),
        J::Obj(o) => match o.first() {
            Some((k, _)) if k.is_empty() => "object[first-key-empty]".into(),
            Some((k, _)) if k.as_bytes()[0] == 0 => "object[first-key-nul-leading]".into(),
            _ => format!("object-len{}", o.len()),
        },
    }
}
fn vclass(v: &[f32]) -> String {
    let mut f: Vec<&str> = Vec::new();
    for x in v {
        let b = x.to_bits();
        if b == 0x8000_0000 {
            f.push("neg-zero");
        } else if x.is_nan() {
            f.push(if b >> 31 != 0 { "neg-nan" } else { "nan" });
        }
    }
    f.sort();
    f.dedup();
    if f.is_empty() {
        format!("len{}", v.len())
    } else {
        format!("len{}[{}]", v.len(), f.join(","))
    }
}
fn list_class(v: &[KV]) -> String {
    format!("[{}]", v.iter().map(tcls).collect::<Vec<_>>().join(","))
}
/// class of a value (without its type name)
fn cls(v: &KV) -> String {
    match v {
        KV::Null => "null".into(),
        KV::Bool(b) => format!("{b}"),
        KV::Int(n) => iclass(*n),
        KV::Float(f) => fclass(*f),
        KV::Text(s) => bclass(s.as_bytes()),
        KV::Blob(b) => bclass(b),
        KV::Date(d) => i32class(*d),
        KV::Time(t) | KV::Ts(t) => iclass(*t),
        KV::TsTz(m, z) => format!("{}_tz-{}", iclass(*m), iclass(*z as i64)),
        KV::Interval(m, d, u) => format!("m-{}_d-{}_us-{}", i32class(*m), i32class(*d), iclass(*u)),
        KV::Uuid(u) => bclass_long(u),
        KV::Inet(v6, a, p) => format!("{}_p{}_{}", if *v6 { "v6" } else { "v4" }, p, bclass_long(&a[..if *v6 { 16 } else { 4 }])),
        KV::Mac(m) => bclass_long(m),
        KV::Json(j) => jclass(j),
        KV::Array(a) | KV::Tuple(a) => list_class(a),
        KV::Range(lo, hi, li, ui) => format!(
            "{}{}..{}{}",
            if *li { "[" } else { "(" },
            lo.as_ref().map(|x| tcls(x)).unwrap_or("unbounded".into()),
            hi.as_ref().map(|x| tcls(x)).unwrap_or("unbounded".into()),
            if *ui { "]" } else { ")" }
        ),
        KV::Enum(t, o) => format!("t{}_o{}", u32class(*t), u32class(*o)),
        KV::Composite(t, f) => format!("t{}{}", u32class(*t), list_class(f)),
        KV::Domain(t, x) => format!("t{}_{}", u32class(*t), tcls(x)),
        KV::Vector(v) => vclass(v),
    }
}
/// run-length description of fixed-size byte strings, e.g. "00x15.01"
fn bclass_long(b: &[u8]) -> String {
    let mut out: Vec<String> = Vec::new();
    let mut i = 0;
    while i < b.len() {
        let mut j = i;
        while j < b.len() && b[j] == b[i] {
            j += 1;
        }
        if j - i > 1 {
            out.push(format!("{:02x}x{}", b[i], j - i));
        } else {
            out.push(format!("{:02x}", b[i]));
        }
        i = j;
    }
    out.join(".")
}
/// class with type name ("int:zero")
fn tcls(v: &KV) -> String {
    format!("{}:{}", ty(v), cls(v))
}

// ---------------------------------------------------------------------------
// the subject: real encoders
// ---------------------------------------------------------------------------
fn to_jv(j: &J) -> JsonValue<'static> {
    // JsonValue borrows slices; the (small, finite) domain values are leaked once.
    match j {
        J::Null => JsonValue::Null,
        J::Bool(b) => JsonValue::Bool(*b),
        J::Num(n) => JsonValue::Number(*n),
        J::Str(s) => JsonValue::String(Box::leak(s.clone().into_boxed_str())),
        J::Arr(a) => JsonValue::Array(Box::leak(a.iter().map(to_jv).collect::<Vec<_>>().into_boxed_slice())),
        J::Obj(o) => JsonValue::Object(Box::leak(
            o.iter().map(|(k, v)| (&*Box::leak(k.clone().into_boxed_str()), to_jv(v))).collect::<Vec<_>>().into_boxed_slice(),
        )),
    }
}

fn enc_into(v: &KV, buf: &mut Vec<u8>) {
    match v {
        KV::Null => key::encode_null(buf),
        KV::Bool(b) => key::encode_bool(*b, buf),
        KV::Int(n) => key::encode_int(*n, buf),
        KV::Float(f) => key::encode_float(*f, buf),
        KV::Text(s) => key::encode_text(s, buf),
        KV::Blob(b) => key::encode_blob(b, buf),
        KV::Date(d) => key::encode_date(*d, buf),
        KV::Time(t) => key::encode_time(*t, buf),
        KV::Ts(t) => key::encode_timestamp(*t, buf),
        KV::TsTz(m, z) => key::encode_timestamptz(*m, *z, buf),
        KV::Interval(m, d, u) => key::encode_interval(*m, *d, *u, buf),
        KV::Uuid(u) => key::encode_uuid(u, buf),
        KV::Inet(v6, a, p) => key::encode_inet(*v6, a, *p, buf),
        KV::Mac(m) => key::encode_macaddr(m, buf),
        KV::Json(j) => key::encode_json(&to_jv(j), buf),
        KV::Array(a) => key::encode_array(a, buf, |x, b| enc_into(x, b)),
        KV::Tuple(a) => key::encode_tuple(a, buf, |x, b| enc_into(x, b)),
        KV::Range(lo, hi, li, ui) => key::encode_range(lo.as_deref(), hi.as_deref(), *li, *ui, buf, |x: &KV, b| enc_into(x, b)),
        KV::Enum(t, o) => key::encode_enum(*t, *o, buf),
        KV::Composite(t, f) => key::encode_composite(*t, f, buf, |x, b| enc_into(x, b)),
        KV::Domain(t, x) => key::encode_domain(*t, &**x, buf, |x: &KV, b| enc_into(x, b)),
        KV::Vector(v) => key::encode_vector(v, buf),
    }
}
fn enc(v: &KV) -> Result<Vec<u8>, String> {
    vcore::catch(|| {
        let mut b = Vec::new();
        enc_into(v, &mut b);
        b
    })
}

// ---------------------------------------------------------------------------
// reference order (None = the documentation does not define the order of the pair)
// ---------------------------------------------------------------------------
/// documented classes: NEG_INFINITY < negatives < ZERO < positives < POS_INFINITY < NAN
fn num_class(v: &KV) -> u8 {
    match v {
        KV::Int(n) => {
            if *n < 0 {
                1
            } else if *n == 0 {
                2
            } else {
                3
            }
        }
        KV::Float(f) => {
            if f.is_nan() {
                5
            } else if *f == f64::NEG_INFINITY {
                0
            } else if *f == f64::INFINITY {
                4
            } else if *f < 0.0 {
                1
            } else if *f == 0.0 {
                2
            } else {
                3
            }
        }
        _ => 9,
    }
}
/// floats inside JSON numbers / vectors: numeric order; (-0,+0) and NaN undefined
fn fcmp_plain(a: f64, b: f64) -> Option<Ordering> {
    if a.is_nan() || b.is_nan() {
        return if a.to_bits() == b.to_bits() { Some(Ordering::Equal) } else { None };
    }
    if a == 0.0 && b == 0.0 && a.to_bits() != b.to_bits() {
        return None;
    }
    a.partial_cmp(&b)
}
fn lex<T>(a: &[T], b: &[T], f: impl Fn(&T, &T) -> Option<Ordering>) -> Option<Ordering> {
    for (x, y) in a.iter().zip(b.iter()) {
        match f(x, y) {
            Some(Ordering::Equal) => {}
            o => return o,
        }
    }
    Some(a.len().cmp(&b.len()))
}
fn jrank(j: &J) -> u8 {
    match j {
        J::Null => 0,
        J::Bool(false) => 1,
        J::Bool(true) => 2,
        J::Num(_) => 3,
        J::Str(_) => 4,
        J::Arr(_) => 5,
        J::Obj(_) => 6,
    }
}
fn jcmp(a: &J, b: &J) -> Option<Ordering> {
    match (a, b) {
        (J::Num(x), J::Num(y)) => fcmp_plain(*x, *y),
        (J::Str(x), J::Str(y)) => Some(x.as_bytes().cmp(y.as_bytes())),
        (J::Arr(x), J::Arr(y)) => lex(x, y, jcmp),
        (J::Obj(x), J::Obj(y)) => lex(x, y, |p, q| match p.0.as_bytes().cmp(q.0.as_bytes()) {
            Ordering::Equal => jcmp(&p.1, &q.1),
            o => Some(o),
        }),
        _ => Some(jrank(a).cmp(&jrank(b))),
    }
}
fn ocmp(a: &Option<Box<KV>>, b: &Option<Box<KV>>) -> Option<Ordering> {
    match (a, b) {
        (None, None) => Some(Ordering::Equal),
        (Some(x), Some(y)) => vcmp(x, y),
        _ => None,
    }
}
fn vcmp(a: &KV, b: &KV) -> Option<Ordering> {
    use KV::*;
    if rank(a) != rank(b) {
        return Some(rank(a).cmp(&rank(b)));
    }
    match (a, b) {
        (Null, Null) => Some(Ordering::Equal),
        (Bool(x), Bool(y)) => Some(x.cmp(y)),
        (Int(x), Int(y)) => Some(x.cmp(y)),
        (Int(_) | Float(_), Int(_) | Float(_)) => {
            let (ca, cb) = (num_class(a), num_class(b));
            if ca != cb {
                return Some(ca.cmp(&cb));
            }
            match (a, b) {
                (Float(x), Float(y)) => {
                    if ca == 1 || ca == 3 {
                        x.partial_cmp(y)
                    } else {
                        Some(Ordering::Equal) // ±0 share a key; ±inf; every NaN is the one value "NaN"
                    }
                }
                // int vs float of the same sign class: zero is documented as shared,
                // negatives / positives are not ordered by the documentation
                _ => {
                    if ca == 2 {
                        Some(Ordering::Equal)
                    } else {
                        None
                    }
                }
            }
        }
        (Text(x), Text(y)) => Some(x.as_bytes().cmp(y.as_bytes())),
        (Blob(x), Blob(y)) => Some(x.cmp(y)),
        (Date(x), Date(y)) => Some(x.cmp(y)),
        (Time(x), Time(y)) | (Ts(x), Ts(y)) => Some(x.cmp(y)),
        (TsTz(m, z), TsTz(m2, z2)) => Some((m, z).cmp(&(m2, z2))),
        (Interval(m, d, u), Interval(m2, d2, u2)) => Some((m, d, u).cmp(&(m2, d2, u2))),
        (Uuid(x), Uuid(y)) => Some(x.cmp(y)),
        (Mac(x), Mac(y)) => Some(x.cmp(y)),
        (Inet(..), Inet(..)) => {
            if a == b {
                Some(Ordering::Equal)
            } else {
                None
            }
        }
        (Json(x), Json(y)) => jcmp(x, y),
        (Array(x), Array(y)) | (Tuple(x), Tuple(y)) => lex(x, y, vcmp),
        (Range(..), Range(..)) => {
            if a == b {
                Some(Ordering::Equal)
            } else {
                None
            }
        }
        (Enum(t, o), Enum(t2, o2)) => Some((t, o).cmp(&(t2, o2))),
        (Composite(t, f), Composite(t2, f2)) => match t.cmp(t2) {
            Ordering::Equal => lex(f, f2, vcmp),
            o => Some(o),
        },
        (Domain(t, x), Domain(t2, y)) => match t.cmp(t2) {
            Ordering::Equal => vcmp(x, y),
            o => Some(o),
        },
        (Vector(x), Vector(y)) => {
            if x.len() != y.len() {
                None // a vector column has one dimension; the docs do not order different dimensions
            } else {
                lex(x, y, |p, q| fcmp_plain(*p as f64, *q as f64).and_then(|o| if o == Ordering::Equal && p.to_bits() != q.to_bits() { None } else { Some(o) }))
            }
        }
        _ => None,
    }
}

/// bit-level identity (floats by bit pattern)
fn jident(a: &J, b: &J) -> bool {
    match (a, b) {
        (J::Num(x), J::Num(y)) => x.to_bits() == y.to_bits(),
        (J::Arr(x), J::Arr(y)) => x.len() == y.len() && x.iter().zip(y).all(|(p, q)| jident(p, q)),
        (J::Obj(x), J::Obj(y)) => x.len() == y.len() && x.iter().zip(y).all(|(p, q)| p.0 == q.0 && jident(&p.1, &q.1)),
        (J::Num(_), _) | (J::Arr(_), _) | (J::Obj(_), _) => false,
        _ => a == b,
    }
}
fn ident(a: &KV, b: &KV) -> bool {
    use KV::*;
    match (a, b) {
        (Float(x), Float(y)) => x.to_bits() == y.to_bits(),
        (Json(x), Json(y)) => jident(x, y),
        (Vector(x), Vector(y)) => x.len() == y.len() && x.iter().zip(y).all(|(p, q)| p.to_bits() == q.to_bits()),
        (Array(x), Array(y)) | (Tuple(x), Tuple(y)) => x.len() == y.len() && x.iter().zip(y).all(|(p, q)| ident(p, q)),
        (Composite(t, x), Composite(t2, y)) => t == t2 && x.len() == y.len() && x.iter().zip(y).all(|(p, q)| ident(p, q)),
        (Domain(t, x), Domain(t2, y)) => t == t2 && ident(x, y),
        (Range(l, h, li, ui), Range(l2, h2, li2, ui2)) => {
            let o = |p: &Option<Box<KV>>, q: &Option<Box<KV>>| match (p, q) {
                (None, None) => true,
                (Some(x), Some(y)) => ident(x, y),
                _ => false,
            };
            li == li2 && ui == ui2 && o(l, l2) && o(h, h2)
        }
        (Float(_), _) | (Json(_), _) | (Vector(_), _) | (Array(_), _) | (Tuple(_), _) | (Composite(..), _) | (Domain(..), _) | (Range(..), _) => false,
        _ => a == b,
    }
}
/// Must the two values share one key?  Some(true) / Some(false) / None (either is accepted:
/// pairs whose order the docs leave open and that are numerically equal, e.g. -0/+0 inside
/// JSON numbers or vectors, NaN payloads).
fn must_share(a: &KV, b: &KV) -> Option<bool> {
    match vcmp(a, b) {
        Some(Ordering::Equal) => Some(true),
        Some(_) => Some(false),
        None => {
            if ident(a, b) {
                Some(true)
            } else if loosely_equal(a, b) {
                None
            } else {
                Some(false)
            }
        }
    }
}
fn jloose(a: &J, b: &J) -> bool {
    match (a, b) {
        (J::Num(x), J::Num(y)) => x == y || (x.is_nan() && y.is_nan()),
        (J::Arr(x), J::Arr(y)) => x.len() == y.len() && x.iter().zip(y).all(|(p, q)| jloose(p, q)),
        (J::Obj(x), J::Obj(y)) => x.len() == y.len() && x.iter().zip(y).all(|(p, q)| p.0 == q.0 && jloose(&p.1, &q.1)),
        (J::Num(_), _) | (J::Arr(_), _) | (J::Obj(_), _) => false,
        _ => a == b,
    }
}
/// equal up to -0/+0 and NaN payload inside JSON numbers / vector components
fn loosely_equal(a: &KV, b: &KV) -> bool {
    use KV::*;
    match (a, b) {
        (Json(x), Json(y)) => jloose(x, y),
        (Vector(x), Vector(y)) => x.len() == y.len() && x.iter().zip(y).all(|(p, q)| p == q || (p.is_nan() && q.is_nan())),
        _ => false,
    }
}

// ---------------------------------------------------------------------------
// decode matching
// ---------------------------------------------------------------------------
fn jmatches(d: &DecodedJson, j: &J) -> bool {
    match (d, j) {
        (DecodedJson::Null, J::Null) => true,
        (DecodedJson::Bool(x), J::Bool(y)) => x == y,
        (DecodedJson::Number(x), J::Num(y)) => x.to_bits() == y.to_bits(),
        (DecodedJson::String(x), J::Str(y)) => x == y,
        (DecodedJson::Array(x), J::Arr(y)) => x.len() == y.len() && x.iter().zip(y).all(|(p, q)| jmatches(p, q)),
        (DecodedJson::Object(x), J::Obj(y)) => x.len() == y.len() && x.iter().zip(y).all(|(p, q)| p.0 == q.0 && jmatches(&p.1, &q.1)),
        _ => false,
    }
}
fn omatches(d: &Option<Box<DecodedKey>>, v: &Option<Box<KV>>) -> bool {
    match (d, v) {
        (None, None) => true,
        (Some(x), Some(y)) => matches(x, y),
        _ => false,
    }
}
/// does the decoded key denote the original value (documented: ±0 decode as Int(0))
fn matches(d: &DecodedKey, v: &KV) -> bool {
    use DecodedKey as D;
    match (d, v) {
        (D::Null, KV::Null) => true,
        (D::Bool(x), KV::Bool(y)) => x == y,
        (D::Int(x), KV::Int(y)) => x == y,
        (D::Int(0), KV::Float(f)) => *f == 0.0,
        (D::Float(x), KV::Float(y)) => x.to_bits() == y.to_bits() && *y != 0.0 && y.is_finite(),
        (D::NegInfinity, KV::Float(y)) => *y == f64::NEG_INFINITY,
        (D::PosInfinity, KV::Float(y)) => *y == f64::INFINITY,
        (D::Nan, KV::Float(y)) => y.is_nan(),
        (D::Text(x), KV::Text(y)) => x == y,
        (D::Blob(x), KV::Blob(y)) => x == y,
        (D::Date(x), KV::Date(y)) => x == y,
        (D::Time(x), KV::Time(y)) => x == y,
        (D::Timestamp(x), KV::Ts(y)) => x == y,
        (D::TimestampTz { micros, tz_offset_mins }, KV::TsTz(m, z)) => micros == m && tz_offset_mins == z,
        (D::Interval { months, days, micros }, KV::Interval(m, dd, u)) => months == m && days == dd && micros == u,
        (D::Uuid(x), KV::Uuid(y)) => x == y,
        (D::Inet { is_ipv6, addr, prefix_len }, KV::Inet(v6, a, p)) => is_ipv6 == v6 && prefix_len == p && addr[..] == a[..if *v6 { 16 } else { 4 }],
        (D::MacAddr(x), KV::Mac(y)) => x == y,
        (D::Json(x), KV::Json(y)) => jmatches(x, y),
        (D::Array(x), KV::Array(y)) | (D::Tuple(x), KV::Tuple(y)) => x.len() == y.len() && x.iter().zip(y).all(|(p, q)| matches(p, q)),
        (D::Range { lower, upper, lower_inclusive, upper_inclusive }, KV::Range(lo, hi, li, ui)) => lower_inclusive == li && upper_inclusive == ui && omatches(lower, lo) && omatches(upper, hi),
        (D::Enum { type_id, ordinal }, KV::Enum(t, o)) => type_id == t && ordinal == o,
        (D::Composite { type_id, fields }, KV::Composite(t, f)) => type_id == t && fields.len() == f.len() && fields.iter().zip(f).all(|(p, q)| matches(p, q)),
        (D::Domain { type_id, value }, KV::Domain(t, x)) => type_id == t && matches(value, x),
        (D::Vector(x), KV::Vector(y)) => x.len() == y.len() && x.iter().zip(y).all(|(p, q)| p.to_bits() == q.to_bits()),
        _ => false,
    }
}

// ---------------------------------------------------------------------------
// blame: the deciding leaf pair inside JSON / vector values (minimal construct)
// ---------------------------------------------------------------------------
fn jblame(a: &J, b: &J) -> (String, String) {
    match (a, b) {
        (J::Arr(x), J::Arr(y)) => {
            for (p, q) in x.iter().zip(y) {
                if !jident(p, q) {
                    return jblame(p, q);
                }
            }
            (jclass(a), jclass(b))
        }
        (J::Obj(x), J::Obj(y)) => {
            for (p, q) in x.iter().zip(y) {
                if p.0 != q.0 {
                    return (format!("key-{}", bclass(p.0.as_bytes())), format!("key-{}", bclass(q.0.as_bytes())));
                }
                if !jident(&p.1, &q.1) {
                    return jblame(&p.1, &q.1);
                }
            }
            (jclass(a), jclass(b))
        }
        _ => (jclass(a), jclass(b)),
    }
}
fn blame(a: &KV, b: &KV) -> (String, String) {
    match (a, b) {
        (KV::Json(x), KV::Json(y)) => jblame(x, y),
        (KV::Vector(x), KV::Vector(y)) if x.len() == y.len() => {
            for (p, q) in x.iter().zip(y) {
                if p.to_bits() != q.to_bits() {
                    return (f32class(*p), f32class(*q));
                }
            }
            (cls(a), cls(b))
        }
        _ if ty(a) == ty(b) => (cls(a), cls(b)),
        _ => (tcls(a), tcls(b)),
    }
}
fn pair_ty(a: &KV, b: &KV) -> &'static str {
    if ty(a) == ty(b) {
        ty(a)
    } else if rank(a) == 2 && rank(b) == 2 {
        "number"
    } else {
        "cross"
    }
}
fn ord_name(o: Ordering) -> &'static str {
    match o {
        Ordering::Less => "less",
        Ordering::Equal => "equal",
        Ordering::Greater => "greater",
    }
}

// ---------------------------------------------------------------------------
// (de)serialisation of reference values for replay files (floats by bit pattern)
// ---------------------------------------------------------------------------
fn j2json(j: &J) -> Value {
    match j {
        J::Null => json!({"j": "null"}),
        J::Bool(b) => json!({"j": "bool", "v": b}),
        J::Num(n) => json!({"j": "num", "bits": n.to_bits(), "show": format!("{n:?}")}),
        J::Str(s) => json!({"j": "str", "hex": vcore::util::hex(s.as_bytes())}),
        J::Arr(a) => json!({"j": "arr", "v": a.iter().map(j2json).collect::<Vec<_>>()}),
        J::Obj(o) => json!({"j": "obj", "v": o.iter().map(|(k, v)| json!([vcore::util::hex(k.as_bytes()), j2json(v)])).collect::<Vec<_>>()}),
    }
}
fn json2j(v: &Value) -> Option<J> {
    Some(match v["j"].as_str()? {
        "null" => J::Null,
        "bool" => J::Bool(v["v"].as_bool()?),
        "num" => J::Num(f64::from_bits(v["bits"].as_u64()?)),
        "str" => J::Str(String::from_utf8(vcore::util::unhex(v["hex"].as_str()?)).ok()?),
        "arr" => J::Arr(v["v"].as_array()?.iter().map(json2j).collect::<Option<Vec<_>>>()?),
        "obj" => J::Obj(
            v["v"]
                .as_array()?
                .iter()
                .map(|e| Some((String::from_utf8(vcore::util::unhex(e[0].as_str()?)).ok()?, json2j(&e[1])?)))
                .collect::<Option<Vec<_>>>()?,
        ),
        _ => return None,
    })
}
fn kv2json(v: &KV) -> Value {
    let list = |a: &[KV]| a.iter().map(kv2json).collect::<Vec<_>>();
    match v {
        KV::Null => json!({"t": "null"}),
        KV::Bool(b) => json!({"t": "bool", "v": b}),
        KV::Int(n) => json!({"t": "int", "v": n}),
        KV::Float(f) => json!({"t": "float", "bits": f.to_bits(), "show": format!("{f:?}")}),
        KV::Text(s) => json!({"t": "text", "hex": vcore::util::hex(s.as_bytes())}),
        KV::Blob(b) => json!({"t": "blob", "hex": vcore::util::hex(b)}),
        KV::Date(d) => json!({"t": "date", "v": d}),
        KV::Time(t) => json!({"t": "time", "v": t}),
        KV::Ts(t) => json!({"t": "timestamp", "v": t}),
        KV::TsTz(m, z) => json!({"t": "timestamptz", "v": [m, z]}),
        KV::Interval(m, d, u) => json!({"t": "interval", "v": [m, d, u]}),
        KV::Uuid(u) => json!({"t": "uuid", "hex": vcore::util::hex(u)}),
        KV::Inet(v6, a, p) => json!({"t": "inet", "v6": v6, "hex": vcore::util::hex(a), "p": p}),
        KV::Mac(m) => json!({"t": "macaddr", "hex": vcore::util::hex(m)}),
        KV::Json(j) => json!({"t": "json", "v": j2json(j)}),
        KV::Array(a) => json!({"t": "array", "v": list(a)}),
        KV::Tuple(a) => json!({"t": "tuple", "v": list(a)}),
        KV::Range(lo, hi, li, ui) => json!({"t": "range", "lo": lo.as_ref().map(|x| kv2json(x)), "hi": hi.as_ref().map(|x| kv2json(x)), "li": li, "ui": ui}),
        KV::Enum(t, o) => json!({"t": "enum", "v": [t, o]}),
        KV::Composite(t, f) => json!({"t": "composite", "id": t, "v": list(f)}),
        KV::Domain(t, x) => json!({"t": "domain", "id": t, "v": kv2json(x)}),
        KV::Vector(x) => json!({"t": "vector", "bits": x.iter().map(|f| f.to_bits()).collect::<Vec<_>>(), "show": format!("{x:?}")}),
    }
}
fn json2kv(v: &Value) -> Option<KV> {
    let list = |x: &Value| x.as_array()?.iter().map(json2kv).collect::<Option<Vec<_>>>();
    let arr = |x: &Value, n: usize| -> Option<Vec<u8>> {
        let b = vcore::util::unhex(x.as_str()?);
        if b.len() == n {
            Some(b)
        } else {
            None
        }
    };
    let opt = |x: &Value| -> Option<Option<Box<KV>>> {
        if x.is_null() {
            Some(None)
        } else {
            Some(Some(Box::new(json2kv(x)?)))
        }
    };
    Some(match v["t"].as_str()? {
        "null" => KV::Null,
        "bool" => KV::Bool(v["v"].as_bool()?),
        "int" => KV::Int(v["v"].as_i64()?),
        "float" => KV::Float(f64::from_bits(v["bits"].as_u64()?)),
        "text" => KV::Text(String::from_utf8(vcore::util::unhex(v["hex"].as_str()?)).ok()?),
        "blob" => KV::Blob(vcore::util::unhex(v["hex"].as_str()?)),
        "date" => KV::Date(v["v"].as_i64()? as i32),
        "time" => KV::Time(v["v"].as_i64()?),
        "timestamp" => KV::Ts(v["v"].as_i64()?),
        "timestamptz" => KV::TsTz(v["v"][0].as_i64()?, v["v"][1].as_i64()? as i16),
        "interval" => KV::Interval(v["v"][0].as_i64()? as i32, v["v"][1].as_i64()? as i32, v["v"][2].as_i64()?),
        "uuid" => KV::Uuid(arr(&v["hex"], 16)?.try_into().ok()?),
        "inet" => KV::Inet(v["v6"].as_bool()?, vcore::util::unhex(v["hex"].as_str()?), v["p"].as_u64()? as u8),
        "macaddr" => KV::Mac(arr(&v["hex"], 6)?.try_into().ok()?),
        "json" => KV::Json(json2j(&v["v"])?),
        "array" => KV::Array(list(&v["v"])?),
        "tuple" => KV::Tuple(list(&v["v"])?),
        "range" => KV::Range(opt(&v["lo"])?, opt(&v["hi"])?, v["li"].as_bool()?, v["ui"].as_bool()?),
        "enum" => KV::Enum(v["v"][0].as_u64()? as u32, v["v"][1].as_u64()? as u32),
        "composite" => KV::Composite(v["id"].as_u64()? as u32, list(&v["v"])?),
        "domain" => KV::Domain(v["id"].as_u64()? as u32, Box::new(json2kv(&v["v"])?)),
        "vector" => KV::Vector(v["bits"].as_array()?.iter().map(|x| x.as_u64().map(|b| f32::from_bits(b as u32))).collect::<Option<Vec<_>>>()?),
        _ => return None,
    })
}

// ---------------------------------------------------------------------------
// oracles on single values and pairs
// ---------------------------------------------------------------------------
struct Item {
    v: KV,
    e: Vec<u8>,
}
/// encode every value once; an encoder panic is a violation and drops the value
fn items(vals: Vec<KV>, rep: &mut Reporter) -> Vec<Item> {
    let mut out = Vec::with_capacity(vals.len());
    for v in vals {
        match enc(&v) {
            Ok(e) => out.push(Item { v, e }),
            Err(p) => {
                rep.violation("C26", "encode", &format!("C26/encode/{}/{}/bytes>panic", ty(&v), cls(&v)), || json!({"pass": "single", "a": kv2json(&v), "b": kv2json(&v)}), "encoded bytes", &p);
            }
        }
    }
    out
}

fn is_proper_prefix(a: &[u8], b: &[u8]) -> bool {
    a.len() < b.len() && b[..a.len()] == *a
}

/// order / distinctness / prefix-freeness of one unordered pair
fn pair_oracles(a: &Item, b: &Item, rep: &mut Reporter) {
    let case = || json!({"pass": "single", "a": kv2json(&a.v), "b": kv2json(&b.v)});
    let got = a.e.cmp(&b.e);
    let want = vcmp(&a.v, &b.v);
    let pt = pair_ty(&a.v, &b.v);
    match want {
        Some(w) => {
            rep.count("order_pairs_defined", 1);
            if w != got {
                // canonical orientation: the smaller value (by the reference order) first
                let (x, y, w2, g2) = if w == Ordering::Greater { (b, a, Ordering::Less, got.reverse()) } else { (a, b, w, got) };
                let (ca, cb) = blame(&x.v, &y.v);
                rep.violation(
                    "C26",
                    "order",
                    &format!("C26/order/{pt}/{ca}-vs-{cb}/{}>{}", ord_name(w2), ord_name(g2)),
                    || json!({"pass": "single", "a": kv2json(&x.v), "b": kv2json(&y.v)}),
                    &format!("cmp(enc(a),enc(b)) = {:?} (value order of {} vs {})", w2, tcls(&x.v), tcls(&y.v)),
                    &format!("{:?}: enc(a)={} enc(b)={}", g2, vcore::util::hex(&x.e), vcore::util::hex(&y.e)),
                );
            }
        }
        None => {
            rep.count("order_pairs_undefined_by_docs", 1);
            if pt == "number" {
                // tolerance: int vs float of the same sign — record how the real order relates to the numeric one
                if let (Some(x), Some(y)) = (num_f64(&a.v), num_f64(&b.v)) {
                    if let Some(n) = x.partial_cmp(&y) {
                        if n != got && n != Ordering::Equal {
                            rep.count("tolerated_int_vs_float_same_sign_pairs_not_in_numeric_order", 1);
                        } else if n == Ordering::Equal {
                            rep.count("tolerated_int_vs_float_numerically_equal_pairs_with_distinct_keys", (got != Ordering::Equal) as u64);
                        }
                    }
                }
            }
        }
    }
    match must_share(&a.v, &b.v) {
        Some(true) if got != Ordering::Equal && want.is_none() => {
            let (ca, cb) = blame(&a.v, &b.v);
            rep.violation("C26", "distinct", &format!("C26/distinct/{pt}/{ca}-vs-{cb}/same-key>distinct-keys"), case, "identical values encode identically", &format!("enc(a)={} enc(b)={}", vcore::util::hex(&a.e), vcore::util::hex(&b.e)));
        }
        Some(false) if got == Ordering::Equal && want.is_none() => {
            let (ca, cb) = blame(&a.v, &b.v);
            rep.violation("C26", "distinct", &format!("C26/distinct/{pt}/{ca}-vs-{cb}/distinct-keys>same-key"), case, "distinct values encode to distinct keys", &format!("both {}", vcore::util::hex(&a.e)));
        }
        Some(true) => rep.count("pairs_sharing_a_key_as_documented", 1),
        Some(false) => {}
        None => rep.count("tolerated_pairs_equal_up_to_zero_sign_or_nan_payload", 1),
    }
    if is_proper_prefix(&a.e, &b.e) || is_proper_prefix(&b.e, &a.e) {
        let (ca, cb) = blame(&a.v, &b.v);
        rep.violation(
            "C26",
            "prefix-free",
            &format!("C26/prefix-free/{pt}/{ca}-vs-{cb}/no-prefix>proper-prefix"),
            case,
            "no encoded key is a proper prefix of another (composite keys are concatenations)",
            &format!("enc(a)={} enc(b)={}", vcore::util::hex(&a.e), vcore::util::hex(&b.e)),
        );
    }
    rep.outcome(&format!("cmp:{}", ord_name(got)));
}
fn num_f64(v: &KV) -> Option<f64> {
    match v {
        KV::Int(n) => Some(*n as f64),
        KV::Float(f) => Some(*f),
        _ => None,
    }
}

const TRAILERS: &[&[u8]] = &[&[], &[0x00], &[0x01], &[0xFF], &[0x00, 0x00], &[0x00, 0xFF], &[0xFF, 0x00], &[0x14], &[0x20, 0x61, 0x00, 0x00]];

/// decode one value out of `data` and compare with `v`; returns an observed-class name on failure
fn decode_check(data: &[u8], v: &KV, want_len: usize) -> Result<(), (&'static str, String)> {
    match vcore::catch(|| key::decode_key(data).map_err(|e| format!("{e:#}"))) {
        Err(p) => Err(("panic", p)),
        Ok(Err(e)) => Err(("err", e)),
        Ok(Ok((d, n))) => {
            let okv = matches(&d, v);
            if okv && n == want_len {
                Ok(())
            } else if !okv {
                Err(("wrong-value", format!("decoded {:?} consumed {} of {}", d, n, want_len)))
            } else {
                Err(("wrong-length", format!("decoded {:?} consumed {} of {}", d, n, want_len)))
            }
        }
    }
}

fn rt_fails(v: &KV) -> bool {
    match enc(v) {
        Ok(e) => decode_check(&e, v, e.len()).is_err(),
        Err(_) => true,
    }
}
fn jshrink(j: &J) -> J {
    let fails = |x: &J| rt_fails(&KV::Json(x.clone()));
    match j {
        J::Arr(items) => {
            for it in items {
                if fails(it) {
                    return jshrink(it);
                }
            }
            j.clone()
        }
        J::Obj(entries) => {
            for (_, v) in entries {
                if fails(v) {
                    return jshrink(v);
                }
            }
            if entries.len() > 1 {
                for e in entries {
                    let single = J::Obj(vec![e.clone()]);
                    if fails(&single) {
                        return single;
                    }
                }
            }
            j.clone()
        }
        _ => j.clone(),
    }
}
/// smallest sub-value whose stand-alone round trip still fails (minimal construct to blame)
fn shrink_roundtrip(v: &KV) -> KV {
    match v {
        KV::Json(j) => KV::Json(jshrink(j)),
        KV::Vector(xs) if xs.len() > 1 => {
            for x in xs {
                let one = KV::Vector(vec![*x]);
                if rt_fails(&one) {
                    return one;
                }
            }
            v.clone()
        }
        _ => v.clone(),
    }
}

fn value_oracles(a: &Item, rep: &mut Reporter) {
    let case = || json!({"pass": "single", "a": kv2json(&a.v), "b": kv2json(&a.v)});
    let t = ty(&a.v);
    // append semantics + determinism: encoding into a non-empty buffer appends the same bytes
    let again = vcore::catch(|| {
        let mut b = vec![0xAA, 0x55];
        enc_into(&a.v, &mut b);
        b
    });
    match again {
        Ok(b) if b[..2] == [0xAA, 0x55] && b[2..] == a.e[..] => {}
        other => rep.violation("C26", "append", &format!("C26/append/{t}/{}/same-bytes>different", cls(&a.v)), case, &format!("AA55 ++ {}", vcore::util::hex(&a.e)), &format!("{other:?}")),
    }
    // the `encode_value` dispatcher equals the per-type encoder
    let uu;
    let kval = match &a.v {
        KV::Null => Some(key::Value::Null),
        KV::Bool(b) => Some(key::Value::Bool(*b)),
        KV::Int(n) => Some(key::Value::Int(*n)),
        KV::Float(f) => Some(key::Value::Float(*f)),
        KV::Text(s) => Some(key::Value::Text(s)),
        KV::Blob(b) => Some(key::Value::Blob(b)),
        KV::Date(d) => Some(key::Value::Date(*d)),
        KV::Ts(x) => Some(key::Value::Timestamp(*x)),
        KV::Uuid(u) => {
            uu = *u;
            Some(key::Value::Uuid(&uu))
        }
        _ => None,
    };
    if let Some(kv) = kval {
        let mut b = Vec::new();
        let r = vcore::catch(|| key::encode_value(&kv, &mut b));
        rep.count("encode_value_dispatch_checked", 1);
        if r.is_err() || b != a.e {
            rep.violation("C26", "dispatch", &format!("C26/dispatch/{t}/{}/same-bytes>different", cls(&a.v)), case, &vcore::util::hex(&a.e), &format!("{r:?} {}", vcore::util::hex(&b)));
        }
    }
    // decode round trip, alone and followed by trailing bytes (next column of a composite key)
    let mut data = Vec::with_capacity(a.e.len() * 2 + 4);
    let mut failed: Option<(&'static str, String, usize)> = None;
    for (ti, tr) in TRAILERS.iter().enumerate().chain(std::iter::once((99usize, &&a.e[..]))) {
        data.clear();
        data.extend_from_slice(&a.e);
        data.extend_from_slice(tr);
        rep.count("decode_calls", 1);
        match decode_check(&data, &a.v, a.e.len()) {
            Ok(()) => rep.outcome("decode:ok"),
            Err((k, msg)) => {
                rep.outcome(&format!("decode:{k}"));
                if failed.is_none() {
                    failed = Some((k, msg, ti));
                }
            }
        }
    }
    if let Some((k, msg, ti)) = failed {
        let c = cls(&shrink_roundtrip(&a.v));
        let trail = if ti == 0 { "alone" } else { "with-trailing-bytes" };
        rep.violation("C26", "roundtrip", &format!("C26/roundtrip/{t}/{c}/{trail}/value+len>{k}"), case, &format!("decode_key(enc(a) ++ trailer) = ({}, {})", tcls(&a.v), a.e.len()), &format!("{msg}; enc(a)={} trailer#{ti}", vcore::util::hex(&a.e)));
    }
}

/// all unordered pairs of one domain, work split by row
fn check_domain(name: &str, dom: &[Item], ctx: &Ctx, rep: &mut Reporter, block: &mut u64) -> bool {
    rep.bound(&format!("domain_size/{name}"), json!(dom.len()));
    for i in 0..dom.len() {
        *block += 1;
        if !ctx.mine(*block) {
            continue;
        }
        value_oracles(&dom[i], rep);
        for j in i..dom.len() {
            pair_oracles(&dom[i], &dom[j], rep);
        }
        let n = (dom.len() - i) as u64;
        rep.bulk(n, n - 1);
        rep.count(&format!("pairs/{name}"), n);
        if i % 64 == 0 && ctx.expired() {
            rep.capped(&format!("deadline in domain {name} at row {i}"));
            return false;
        }
    }
    true
}

// ---------------------------------------------------------------------------
// domains (deterministic, simplest first)
// ---------------------------------------------------------------------------
fn dom_i64(t: Tier) -> Vec<i64> {
    let mut v: Vec<i64> = vec![0, i64::MIN, i64::MIN + 1, i64::MAX, i64::MAX - 1];
    let ks: Vec<u32> = (0..=62).collect();
    for k in ks {
        let p = 1i64 << k;
        for d in [-1i64, 0, 1] {
            v.push(p + d);
            v.push(-(p + d));
        }
    }
    if t == Tier::Thorough {
        v.extend(-300..=300);
        for byte in 0..8u32 {
            for b in 1..=255u64 {
                let x = (b << (8 * byte)) as i64;
                v.push(x);
                v.push(x.wrapping_neg());
            }
        }
    }
    v.sort_by_key(|x| (x.unsigned_abs(), *x));
    v.dedup();
    v
}
fn dom_i32() -> Vec<i32> {
    let mut v = vec![0, i32::MIN, i32::MIN + 1, i32::MAX, i32::MAX - 1];
    for k in [0u32, 1, 7, 8, 15, 16, 23, 24, 30] {
        let p = 1i32 << k;
        for d in [-1i32, 0, 1] {
            v.push(p + d);
            v.push(-(p + d));
        }
    }
    v.sort_by_key(|x| (x.unsigned_abs(), *x));
    v.dedup();
    v
}
fn dom_f64(t: Tier) -> Vec<f64> {
    let mut bits: Vec<u64> = Vec::new();
    let pos: Vec<u64> = vec![
        0,
        1,
        2,
        0x000F_FFFF_FFFF_FFFF,
        0x0010_0000_0000_0000,
        0x0010_0000_0000_0001,
        (1e-320f64).to_bits(),
        0.5f64.to_bits(),
        0x3FEF_FFFF_FFFF_FFFF,
        1.0f64.to_bits(),
        0x3FF0_0000_0000_0001,
        1.5f64.to_bits(),
        2.0f64.to_bits(),
        255.0f64.to_bits(),
        256.0f64.to_bits(),
        9007199254740992.0f64.to_bits(),
        9223372036854775808.0f64.to_bits(),
        1e300f64.to_bits(),
        f64::MAX.to_bits(),
        f64::INFINITY.to_bits(),
        0x7FF8_0000_0000_0000,
        0x7FF0_0000_0000_0001,
        0x7FFF_FFFF_FFFF_FFFF,
    ];
    for p in &pos {
        bits.push(*p);
        bits.push(*p | (1u64 << 63));
    }
    {
        let exps: Vec<u64> = match t {
            Tier::Thorough => (0..=2046u64).collect(),
            Tier::Quick => [0u64, 1, 2, 3, 1021, 1022, 1023, 1024, 1025, 1026, 1075, 1076, 2044, 2045, 2046].into_iter().chain((0..=2046u64).step_by(16)).collect(),
        };
        let ms: Vec<u64> = t.pick(vec![0u64, 1, 1u64 << 51, (1u64 << 52) - 1], vec![0u64, 1, 2, 1u64 << 26, 1u64 << 51, (1u64 << 51) + 1, (1u64 << 52) - 2, (1u64 << 52) - 1]);
        for e in exps {
            for m in ms.iter().copied() {
                bits.push((e << 52) | m);
                bits.push((e << 52) | m | (1u64 << 63));
            }
        }
    }
    let mut seen = std::collections::BTreeSet::new();
    bits.retain(|b| seen.insert(*b));
    bits.into_iter().map(f64::from_bits).collect()
}
fn dom_f32() -> Vec<f32> {
    vec![
        0.0,
        -0.0,
        1.0,
        -1.0,
        f32::from_bits(1),
        -f32::from_bits(1),
        f32::MIN_POSITIVE,
        -f32::MIN_POSITIVE,
        f32::MAX,
        f32::MIN,
        f32::INFINITY,
        f32::NEG_INFINITY,
        f32::from_bits(0x7FC0_0000),
        f32::from_bits(0xFFC0_0000),
        f32::from_bits(0x003F_FFFF),
        f32::from_bits(0x803F_FFFF),
    ]
}
/// all strings over `alpha` of length <= n, shortlex
fn strings<T: Clone>(alpha: &[T], n: usize) -> Vec<Vec<T>> {
    let mut out: Vec<Vec<T>> = vec![vec![]];
    let mut level: Vec<Vec<T>> = vec![vec![]];
    for _ in 0..n {
        let mut next = Vec::with_capacity(level.len() * alpha.len());
        for s in &level {
            for a in alpha {
                let mut x = s.clone();
                x.push(a.clone());
                next.push(x);
            }
        }
        out.extend(next.iter().cloned());
        level = next;
    }
    out
}
fn dom_blob(t: Tier) -> Vec<Vec<u8>> {
    match t {
        Tier::Quick => strings(&[0x00u8, 0x01, 0x61, 0xFE, 0xFF], 4),
        Tier::Thorough => strings(&[0x00u8, 0x01, 0x02, 0x61, 0x7F, 0x80, 0x81, 0xFD, 0xFE, 0xFF], 4),
    }
}
fn dom_text(t: Tier) -> Vec<String> {
    let s = match t {
        Tier::Quick => strings(&['\0', '\u{1}', 'a', '\u{ff}', '\u{10ffff}'], 4),
        Tier::Thorough => strings(&['\0', '\u{1}', 'a', '\u{7f}', '\u{80}', '\u{ff}', '\u{ffff}', '\u{10ffff}'], 4),
    };
    s.into_iter().map(|c| c.into_iter().collect()).collect()
}
fn fixed<const N: usize>() -> Vec<[u8; N]> {
    let mut v = vec![[0u8; N], [0xFFu8; N]];
    for pos in [0, N / 2, N - 1] {
        for b in [0x01u8, 0x7F, 0x80, 0xFF] {
            let mut x = [0u8; N];
            x[pos] = b;
            v.push(x);
            let mut y = [0xFFu8; N];
            y[pos] = !b;
            v.push(y);
        }
    }
    let mut seen = std::collections::BTreeSet::new();
    v.retain(|b| seen.insert(*b));
    v
}
/// element mini-domain for containers
fn mini(t: Tier) -> Vec<KV> {
    let mut m = vec![
        KV::Null,
        KV::Bool(false),
        KV::Int(0),
        KV::Int(1),
        KV::Int(-1),
        KV::Float(1.5),
        KV::Text(String::new()),
        KV::Text("a".into()),
        KV::Text("\0".into()),
        KV::Blob(vec![0xFF]),
        KV::Array(vec![]),
    ];
    if t == Tier::Thorough {
        m.extend([KV::Float(-0.0), KV::Blob(vec![]), KV::Array(vec![KV::Null]), KV::Date(0)]);
    }
    m
}
fn dom_json(t: Tier) -> Vec<J> {
    let nums: Vec<f64> = vec![f64::NEG_INFINITY, f64::MIN, -1.0, -f64::MIN_POSITIVE, -5e-324, -0.0, 0.0, 5e-324, f64::MIN_POSITIVE, 1.0, f64::MAX, f64::INFINITY];
    let strs = ["", "a", "\0", "\u{1}", "a\0", "ab", "\u{ff}"];
    let mut out = vec![J::Null, J::Bool(false), J::Bool(true)];
    out.extend(nums.iter().map(|n| J::Num(*n)));
    out.extend(strs.iter().map(|s| J::Str(s.to_string())));
    let mj = vec![
        J::Null,
        J::Bool(true),
        J::Num(0.0),
        J::Num(-1.0),
        J::Num(-0.0),
        J::Str(String::new()),
        J::Str("a".into()),
        J::Arr(vec![]),
        J::Obj(vec![]),
        J::Arr(vec![J::Null]),
        J::Obj(vec![(String::new(), J::Null)]),
        J::Obj(vec![("a".into(), J::Null)]),
    ];
    out.extend(strings(&mj, t.pick(2, 3)).into_iter().map(J::Arr));
    let keys: Vec<&str> = t.pick(vec!["", "a", "\0", "\u{1}", "ab"], vec!["", "a", "\0", "\u{1}", "ab", "b", "a\0"]);
    let vals: Vec<J> = t.pick(
        vec![J::Null, J::Num(1.0), J::Str(String::new()), J::Obj(vec![])],
        vec![J::Null, J::Num(1.0), J::Num(-0.0), J::Str(String::new()), J::Arr(vec![]), J::Obj(vec![]), J::Obj(vec![(String::new(), J::Null)])],
    );
    let mut entries = Vec::new();
    for k in &keys {
        for v in &vals {
            entries.push((k.to_string(), v.clone()));
        }
    }
    out.extend(strings(&entries, 2).into_iter().map(J::Obj));
    out
}

/// per-type domains of the `single` pass
fn single_domains(t: Tier) -> Vec<(&'static str, Vec<KV>)> {
    let ints = dom_i64(t);
    let mut d: Vec<(&'static str, Vec<KV>)> = Vec::new();
    d.push(("null", vec![KV::Null]));
    d.push(("bool", vec![KV::Bool(false), KV::Bool(true)]));
    d.push(("int", ints.iter().map(|x| KV::Int(*x)).collect()));
    d.push(("float", dom_f64(t).into_iter().map(KV::Float).collect()));
    // mixed numbers: every int of the quick int domain against every float of the quick float domain
    let mut num: Vec<KV> = dom_i64(Tier::Quick).into_iter().map(KV::Int).collect();
    num.extend(dom_f64(Tier::Quick).into_iter().map(KV::Float));
    d.push(("number", num));
    d.push(("text", dom_text(t).into_iter().map(KV::Text).collect()));
    d.push(("blob", dom_blob(t).into_iter().map(KV::Blob).collect()));
    d.push(("date", dom_i32().into_iter().map(KV::Date).collect()));
    let ti = dom_i64(Tier::Quick);
    d.push(("time", ti.iter().map(|x| KV::Time(*x)).collect()));
    d.push(("timestamp", ti.iter().map(|x| KV::Ts(*x)).collect()));
    let five64 = [i64::MIN, -1, 0, 1, i64::MAX];
    let five32 = [i32::MIN, -1, 0, 1, i32::MAX];
    let mut v = Vec::new();
    for m in five64 {
        for z in [i16::MIN, -60, -1, 0, 1, 60, i16::MAX] {
            v.push(KV::TsTz(m, z));
        }
    }
    d.push(("timestamptz", v));
    let mut v = Vec::new();
    for m in five32 {
        for dd in five32 {
            for u in five64 {
                v.push(KV::Interval(m, dd, u));
            }
        }
    }
    d.push(("interval", v));
    d.push(("uuid", fixed::<16>().into_iter().map(KV::Uuid).collect()));
    d.push(("macaddr", fixed::<6>().into_iter().map(KV::Mac).collect()));
    let mut v = Vec::new();
    for p in [0u8, 1, 24, 32, 128, 255] {
        for a in fixed::<4>() {
            v.push(KV::Inet(false, a.to_vec(), p));
        }
        for a in fixed::<16>().into_iter().take(8) {
            v.push(KV::Inet(true, a.to_vec(), p));
        }
    }
    d.push(("inet", v));
    d.push(("json", dom_json(t).into_iter().map(KV::Json).collect()));
    let m = mini(t);
    d.push(("array", strings(&m, 3).into_iter().map(KV::Array).collect()));
    d.push(("tuple", strings(&m, 2).into_iter().map(KV::Tuple).collect()));
    let ids = [0u32, 1, 255, 256, 0x0100_0000, u32::MAX];
    let mut v = Vec::new();
    for a in ids {
        for b in ids {
            v.push(KV::Enum(a, b));
        }
    }
    d.push(("enum", v));
    let mut v = Vec::new();
    let m6: Vec<KV> = m.iter().take(8).cloned().collect();
    for id in [0u32, 1, 0x0100_0000, u32::MAX] {
        for f in strings(&m6, 2) {
            v.push(KV::Composite(id, f));
        }
    }
    d.push(("composite", v));
    let mut v = Vec::new();
    for id in [0u32, 1, 256, u32::MAX] {
        for x in &m {
            v.push(KV::Domain(id, Box::new(x.clone())));
        }
    }
    d.push(("domain", v));
    let bounds: Vec<Option<Box<KV>>> = vec![None, Some(Box::new(KV::Int(-1))), Some(Box::new(KV::Int(0))), Some(Box::new(KV::Int(1))), Some(Box::new(KV::Text(String::new()))), Some(Box::new(KV::Text("a".into()))), Some(Box::new(KV::Date(5)))];
    let mut v = Vec::new();
    for lo in &bounds {
        for hi in &bounds {
            for li in [false, true] {
                for ui in [false, true] {
                    v.push(KV::Range(lo.clone(), hi.clone(), li, ui));
                }
            }
        }
    }
    d.push(("range", v));
    d.push(("vector", strings(&dom_f32(), 3).into_iter().map(KV::Vector).collect()));
    d
}

/// representatives (first / middle / last of each single domain by encoded order are not known
/// a priori, so take first, last and two interior elements of the enumeration)
fn cross_domain(t: Tier) -> Vec<KV> {
    let mut out = Vec::new();
    for (name, d) in single_domains(Tier::Quick) {
        if name == "number" {
            continue;
        }
        let n = d.len();
        let picks: Vec<usize> = if t == Tier::Quick { vec![0, 1, n / 3, n / 2, n - 1] } else { (0..n).step_by((n / 24).max(1)).chain([n - 1]).collect() };
        let mut seen = std::collections::BTreeSet::new();
        for p in picks {
            if p < n && seen.insert(p) {
                out.push(d[p].clone());
            }
        }
    }
    // the extreme encodings of variable-length types
    out.push(KV::Text("\u{10ffff}\u{10ffff}\u{10ffff}".into()));
    out.push(KV::Blob(vec![0xFF; 4]));
    out.push(KV::Float(f64::from_bits(0xFFFF_FFFF_FFFF_FFFF)));
    out.push(KV::Vector(vec![f32::from_bits(0xFFFF_FFFF); 2]));
    out
}

/// reduced column domains of the `composite` pass
fn composite_domain(cols: usize, t: Tier) -> Vec<KV> {
    let j = |x: J| KV::Json(x);
    let mut d = vec![
        KV::Null,
        KV::Bool(true),
        KV::Int(-1),
        KV::Int(0),
        KV::Int(1),
        KV::Float(-1.5),
        KV::Float(-0.0),
        KV::Float(f64::NAN),
        KV::Text(String::new()),
        KV::Text("\0".into()),
        KV::Text("a".into()),
        KV::Blob(vec![]),
        KV::Blob(vec![0x00]),
        KV::Blob(vec![0xFF]),
    ];
    {
        d.extend([
            // the trickiest first (the 3-column domain is the first 18 (quick) / 32 (thorough) values)
            KV::Blob(vec![0x00, 0xFF]),
            KV::Blob(vec![0xFF, 0x00]),
            KV::Blob(vec![0x00, 0x00]),
            KV::Text("a\0".into()),
            KV::Float(0.0),
            KV::Float(f64::NEG_INFINITY),
            KV::Int(i64::MIN),
            j(J::Obj(vec![])),
            j(J::Obj(vec![(String::new(), J::Null)])),
            KV::Array(vec![]),
            KV::Array(vec![KV::Null]),
            KV::Vector(vec![-0.0]),
            KV::Bool(false),
            KV::Int(i64::MAX),
            KV::Float(5e-324),
            KV::Float(f64::INFINITY),
            KV::Text("\u{ff}".into()),
            KV::Blob(vec![0x61]),
            KV::Date(-1),
            KV::Date(0),
            KV::Ts(i64::MIN),
            KV::TsTz(0, -1),
            KV::Interval(0, -1, 0),
            KV::Uuid([0; 16]),
            KV::Uuid([0xFF; 16]),
            KV::Mac([0, 0, 0, 0, 0, 1]),
            KV::Inet(false, vec![1, 0, 0, 0], 0),
            j(J::Null),
            j(J::Str("a".into())),
            j(J::Arr(vec![])),
            j(J::Obj(vec![("a".into(), J::Null)])),
            j(J::Num(-0.0)),
            KV::Array(vec![KV::Null, KV::Null]),
            KV::Tuple(vec![KV::Int(0)]),
            KV::Enum(0, 1),
            KV::Composite(0, vec![]),
            KV::Domain(0, Box::new(KV::Null)),
            KV::Range(None, None, false, false),
            KV::Range(Some(Box::new(KV::Int(0))), None, true, false),
            KV::Vector(vec![]),
            KV::Vector(vec![0.0]),
            KV::Vector(vec![0.0, 0.0]),
        ]);
        if cols == 3 {
            d.truncate(t.pick(18, 32));
        }
    }
    d
}

// ---------------------------------------------------------------------------
// composite keys
// ---------------------------------------------------------------------------
/// the pair already violates a single-column oracle (reported by the `single`/`cross`
/// passes under its own signature); composite pairs decided by it are pruned
fn single_pair_bad(a: &Item, b: &Item) -> bool {
    let got = a.e.cmp(&b.e);
    if let Some(w) = vcmp(&a.v, &b.v) {
        if w != got {
            return true;
        }
    } else {
        match must_share(&a.v, &b.v) {
            Some(true) if got != Ordering::Equal => return true,
            Some(false) if got == Ordering::Equal => return true,
            _ => {}
        }
    }
    is_proper_prefix(&a.e, &b.e) || is_proper_prefix(&b.e, &a.e)
}

fn concat(t: &[&Item]) -> Vec<u8> {
    let mut v = Vec::new();
    for x in t {
        v.extend_from_slice(&x.e);
    }
    v
}

fn tuple_pair_oracle(a: &[&Item], b: &[&Item], ea: &[u8], eb: &[u8], rep: &mut Reporter) {
    let cols = a.len();
    let mut want = Some(Ordering::Equal);
    let mut decided = cols;
    for k in 0..cols {
        if single_pair_bad(a[k], b[k]) {
            rep.pruned(1);
            return;
        }
        match vcmp(&a[k].v, &b[k].v) {
            Some(Ordering::Equal) => {}
            None if a[k].e == b[k].e => {} // identical column (e.g. the same NaN): next column decides
            o => {
                want = o;
                decided = k;
                break;
            }
        }
    }
    let Some(w) = want else {
        rep.count("composite_pairs_undefined_by_docs", 1);
        return;
    };
    rep.count("composite_pairs_defined", 1);
    let got = ea.cmp(eb);
    if got != w {
        let (ca, cb) = if decided < cols { (tcls(&a[decided].v), tcls(&b[decided].v)) } else { ("all-equal".to_string(), "all-equal".to_string()) };
        rep.violation(
            "C26",
            "composite-order",
            &format!("C26/composite-order/cols{cols}/col{decided}/{ca}-vs-{cb}/{}>{}", ord_name(w), ord_name(got)),
            || json!({"pass": "composite", "a": a.iter().map(|x| kv2json(&x.v)).collect::<Vec<_>>(), "b": b.iter().map(|x| kv2json(&x.v)).collect::<Vec<_>>()}),
            &format!("{w:?} (column-wise)"),
            &format!("{got:?}: {} vs {}", vcore::util::hex(ea), vcore::util::hex(eb)),
        );
    }
}

/// decode a concatenated key column by column
fn tuple_decode_oracle(a: &[&Item], ea: &[u8], rep: &mut Reporter) {
    let mut off = 0usize;
    for (k, it) in a.iter().enumerate() {
        // values whose stand-alone round trip already fails are reported by `single`
        if decode_check(&it.e, &it.v, it.e.len()).is_err() {
            rep.pruned(1);
            return;
        }
        rep.count("composite_decode_calls", 1);
        if let Err((kind, msg)) = decode_check(&ea[off..], &it.v, it.e.len()) {
            let next = a.get(k + 1).map(|x| ty(&x.v)).unwrap_or("end");
            rep.violation(
                "C26",
                "composite-decode",
                &format!("C26/composite-decode/{}/followed-by-{next}/value+len>{kind}", tcls(&it.v)),
                || json!({"pass": "composite", "a": a.iter().map(|x| kv2json(&x.v)).collect::<Vec<_>>(), "b": a.iter().map(|x| kv2json(&x.v)).collect::<Vec<_>>()}),
                &format!("column {k} decodes to {} consuming {}", tcls(&it.v), it.e.len()),
                &format!("{msg}; key={} offset={off}", vcore::util::hex(ea)),
            );
            return;
        }
        off += it.e.len();
    }
}

fn composite_pass(cols: usize, ctx: &Ctx, rep: &mut Reporter, block: &mut u64) -> bool {
    let dom = items(composite_domain(cols, ctx.tier), rep);
    let n = dom.len();
    rep.bound(&format!("composite_domain_size/cols{cols}"), json!(n));
    let total = n.pow(cols as u32);
    let tuple = |mut idx: usize| -> Vec<&Item> {
        let mut t = vec![&dom[0]; cols];
        for k in (0..cols).rev() {
            t[k] = &dom[idx % n];
            idx /= n;
        }
        t
    };
    let encs: Vec<Vec<u8>> = (0..total).map(|i| concat(&tuple(i))).collect();
    for ia in 0..total {
        *block += 1;
        if !ctx.mine(*block) {
            continue;
        }
        let ta = tuple(ia);
        tuple_decode_oracle(&ta, &encs[ia], rep);
        for ib in ia..total {
            let tb = tuple(ib);
            tuple_pair_oracle(&ta, &tb, &encs[ia], &encs[ib], rep);
        }
        let m = (total - ia) as u64;
        rep.bulk(m, m - 1);
        rep.count(&format!("tuple_pairs/cols{cols}"), m);
        if ia % 32 == 0 && ctx.expired() {
            rep.capped(&format!("deadline in composite pass cols={cols} at tuple {ia}/{total}"));
            return false;
        }
    }
    true
}

// ---------------------------------------------------------------------------
// SQL level: Database::encode_value_as_key (pub(crate)) observed through indexes
// ---------------------------------------------------------------------------
struct SqlVal {
    ov: OwnedValue,
    /// reference key columns (value order = column-wise reference order)
    k: Vec<KV>,
    lit: Option<String>,
}
struct SqlTy {
    name: &'static str,
    decl: &'static str,
    vals: Vec<SqlVal>,
    /// ORDER BY through the index is checked (the type has a documented value order)
    ordered: bool,
}
fn scls(v: &SqlVal) -> String {
    v.k.iter().map(cls).collect::<Vec<_>>().join(",")
}
fn scmp(a: &SqlVal, b: &SqlVal) -> Option<Ordering> {
    lex(&a.k, &b.k, vcmp)
}
fn sshare(a: &SqlVal, b: &SqlVal) -> Option<bool> {
    if a.k.len() != b.k.len() {
        return Some(false);
    }
    let mut all = Some(true);
    for (x, y) in a.k.iter().zip(&b.k) {
        match must_share(x, y) {
            Some(true) => {}
            Some(false) => return Some(false),
            None => all = None,
        }
    }
    all
}
fn sql_text_lit(s: &str) -> Option<String> {
    if s.contains('\0') {
        None
    } else {
        Some(format!("'{}'", s.replace('\'', "''")))
    }
}
fn sql_types(t: Tier) -> Vec<SqlTy> {
    let one = |ov: OwnedValue, k: KV, lit: Option<String>| SqlVal { ov, k: vec![k], lit };
    let ints = dom_i64(t.pick(Tier::Quick, Tier::Quick));
    let mut out = Vec::new();
    out.push(SqlTy { name: "bool", decl: "BOOL", ordered: true, vals: vec![one(OwnedValue::Bool(false), KV::Bool(false), Some("FALSE".into())), one(OwnedValue::Bool(true), KV::Bool(true), Some("TRUE".into()))] });
    out.push(SqlTy { name: "bigint", decl: "BIGINT", ordered: true, vals: dom_i64(t).into_iter().take(1500).map(|n| one(OwnedValue::Int(n), KV::Int(n), Some(format!("{n}")))).collect() });
    out.push(SqlTy {
        name: "double",
        decl: "DOUBLE PRECISION",
        ordered: true,
        vals: dom_f64(t).into_iter().take(1500).map(|f| one(OwnedValue::Float(f), KV::Float(f), if f.is_finite() { Some(format!("{f:?}")) } else { None })).collect(),
    });
    out.push(SqlTy { name: "text", decl: "TEXT", ordered: true, vals: dom_text(t).into_iter().take(1500).map(|s| one(OwnedValue::Text(s.clone()), KV::Text(s.clone()), sql_text_lit(&s))).collect() });
    out.push(SqlTy { name: "blob", decl: "BLOB", ordered: true, vals: dom_blob(t).into_iter().take(1500).map(|b| one(OwnedValue::Blob(b.clone()), KV::Blob(b), None)).collect() });
    out.push(SqlTy { name: "date", decl: "DATE", ordered: true, vals: dom_i32().into_iter().map(|d| one(OwnedValue::Date(d), KV::Date(d), None)).collect() });
    out.push(SqlTy { name: "time", decl: "TIME", ordered: true, vals: ints.iter().map(|x| one(OwnedValue::Time(*x), KV::Time(*x), None)).collect() });
    out.push(SqlTy { name: "timestamp", decl: "TIMESTAMP", ordered: true, vals: ints.iter().map(|x| one(OwnedValue::Timestamp(*x), KV::Ts(*x), None)).collect() });
    // distinct instants only: values with the same instant and different zone offsets are
    // equal instants, their mutual order / distinctness is not defined by the docs
    let offs = [0i32, 3600, -3600, 32767, -32768, 60, -60, 900, 0, 1];
    out.push(SqlTy {
        name: "timestamptz",
        decl: "TIMESTAMPTZ",
        ordered: true,
        vals: [i64::MIN, -(1i64 << 40), -256, -1, 0, 1, 255, 1i64 << 40, i64::MAX - 1, i64::MAX].iter().zip(offs).map(|(m, z)| one(OwnedValue::TimestampTz(*m, z), KV::Ts(*m), None)).collect(),
    });
    let mut iv = Vec::new();
    for m in [i32::MIN, -1, 0, 1, i32::MAX] {
        for d in [i32::MIN, -1, 0, 1, i32::MAX] {
            for u in [i64::MIN, -1, 0, 1, i64::MAX] {
                iv.push(one(OwnedValue::Interval(u, d, m), KV::Interval(m, d, u), None));
            }
        }
    }
    out.push(SqlTy { name: "interval", decl: "INTERVAL", ordered: true, vals: iv });
    out.push(SqlTy { name: "uuid", decl: "UUID", ordered: true, vals: fixed::<16>().into_iter().map(|u| one(OwnedValue::Uuid(u), KV::Uuid(u), None)).collect() });
    out.push(SqlTy { name: "macaddr", decl: "MACADDR", ordered: true, vals: fixed::<6>().into_iter().map(|u| one(OwnedValue::MacAddr(u), KV::Mac(u), None)).collect() });
    // VECTOR has no documented order: distinctness (UNIQUE) only; components compare numerically
    let comps = [0.0f32, -0.0, 1.0, -1.0, f32::MIN_POSITIVE, f32::MAX, f32::MIN, 1.5];
    let mut vv = Vec::new();
    for a in comps {
        for b in comps {
            vv.push(SqlVal { ov: OwnedValue::Vector(vec![a, b]), k: vec![KV::Float(a as f64), KV::Float(b as f64)], lit: None });
        }
    }
    out.push(SqlTy { name: "vector2", decl: "VECTOR(2)", ordered: false, vals: vv });
    out
}

/// deterministic scrambled insertion order (a permutation of 0..n)
fn scramble(n: usize) -> Vec<usize> {
    if n == 0 {
        return vec![];
    }
    let stride = [7919usize, 104729, 13, 11, 7, 5, 3, 1].into_iter().find(|s| gcd(*s, n) == 1).unwrap_or(1);
    (0..n).map(|i| (i * stride + n / 2) % n).collect()
}
fn gcd(a: usize, b: usize) -> usize {
    if b == 0 {
        a
    } else {
        gcd(b, a % b)
    }
}
fn ids_of(r: &Res) -> Option<Vec<i64>> {
    match r {
        Res::Rows(rows) => rows
            .iter()
            .map(|r| match r.first() {
                Some(refmodel::val::V::Int(i)) => Some(*i),
                _ => None,
            })
            .collect(),
        _ => None,
    }
}
fn sql_case(scn: &str, tyname: &str, tier: Tier) -> Value {
    json!({"pass": "sql", "scenario": scn, "type": tyname, "tier": tier.name()})
}

/// index order: ORDER BY answered by a SecondaryIndexScan returns the rows in index-key order
fn sql_order(st: &SqlTy, tier: Tier, ctx: &Ctx, rep: &mut Reporter) {
    let tname = st.name;
    let Ok(t) = TestDb::create(&ctx.scratch, &format!("ord_{tname}")) else {
        rep.note("sql: Database::create failed");
        return;
    };
    let case = || sql_case("order", tname, tier);
    let with_twin = st.vals.iter().any(|v| v.lit.is_some());
    for ddl in [format!("CREATE TABLE t(id INT PRIMARY KEY, c {})", st.decl), "CREATE INDEX ic ON t(c)".to_string(), format!("CREATE TABLE t0(id INT PRIMARY KEY, c {})", st.decl)] {
        let r = t.exec(&ddl);
        if !r.ok() {
            rep.outcome(&format!("sql-ddl-{}:{tname}", r.class()));
            rep.note(&format!("sql: {ddl} -> {}", vcore::util::clip(&r.show(), 120)));
            return;
        }
    }
    let mut inserted: Vec<usize> = Vec::new();
    for i in scramble(st.vals.len()) {
        let p = [OwnedValue::Int(i as i64), st.vals[i].ov.clone()];
        let r = exec_params(t.db(), "INSERT INTO t VALUES (?, ?)", &p);
        rep.outcome(&format!("sql-insert:{}", r.class()));
        if r.ok() {
            inserted.push(i);
            if with_twin {
                let _ = exec_params(t.db(), "INSERT INTO t0 VALUES (?, ?)", &p);
            }
        } else {
            rep.count("sql_inserts_refused", 1);
            rep.note(&format!("sql: insert of {tname} {} refused: {}", scls(&st.vals[i]), vcore::util::clip(&r.show(), 100)));
        }
    }
    rep.count("sql_rows_inserted", inserted.len() as u64);
    if st.ordered {
        for (dir, sql) in [("asc", "SELECT id FROM t ORDER BY c"), ("desc", "SELECT id FROM t ORDER BY c DESC")] {
            let plan = explain(t.db(), sql).unwrap_or_default();
            if !plan.contains("SecondaryIndexScan on t using ic") {
                rep.count("sql_order_not_an_index_plan", 1);
                continue;
            }
            rep.count("sql_order_index_plans", 1);
            let r = t.exec(sql);
            let Some(mut ids) = ids_of(&r) else {
                rep.violation("C26", "sql-order", &format!("C26/sql-order/{tname}/index-scan/rows>{}", r.class()), case, "rows", &r.show());
                continue;
            };
            if dir == "desc" {
                ids.reverse();
            }
            let mut sorted = ids.clone();
            sorted.sort();
            let mut want: Vec<i64> = inserted.iter().map(|x| *x as i64).collect();
            want.sort();
            if sorted != want {
                let kind = if sorted.len() < want.len() { "missing-rows" } else if sorted.len() > want.len() { "extra-rows" } else { "other-rows" };
                rep.violation("C26", "sql-order", &format!("C26/sql-order/{tname}/index-scan/all-rows>{kind}"), case, &format!("{} ids", want.len()), &format!("{} ids ({dir})", sorted.len()));
                continue;
            }
            let mut reported = 0;
            'outer: for x in 0..ids.len() {
                for y in x + 1..ids.len() {
                    let (a, b) = (&st.vals[ids[x] as usize], &st.vals[ids[y] as usize]);
                    rep.count("sql_order_pairs", 1);
                    if scmp(a, b) == Some(Ordering::Greater) {
                        rep.violation(
                            "C26",
                            "sql-order",
                            &format!("C26/sql-order/{tname}/{}-vs-{}/index-order>inverted", scls(b), scls(a)),
                            case,
                            &format!("{} before {} in index order", scls(b), scls(a)),
                            &format!("{dir}: position {x} holds {} and position {y} holds {}", scls(a), scls(b)),
                        );
                        reported += 1;
                        if reported >= 8 {
                            break 'outer;
                        }
                        break;
                    }
                }
            }
            rep.outcome(&format!("sql-order:{}", if reported == 0 { "sorted" } else { "inverted" }));
        }
    }
    // point lookups through the index (planner-side literal encoder vs write-path encoder)
    let mut explained = false;
    for &i in &inserted {
        let Some(lit) = &st.vals[i].lit else { continue };
        let sql = format!("SELECT id FROM t WHERE c = {lit}");
        let plan = explain(t.db(), &sql).unwrap_or_default();
        if !plan.contains("SecondaryIndexScan on t using ic") {
            rep.count("sql_lookup_not_an_index_plan", 1);
            continue;
        }
        rep.count("sql_lookup_index_plans", 1);
        if !explained {
            explained = true;
            rep.sample(|| json!({"pass": "sql", "sql": sql, "plan": plan}));
        }
        let got = ids_of(&t.exec(&sql)).map(|mut v| {
            v.sort();
            v
        });
        let twin = ids_of(&t.exec(&format!("SELECT id FROM t0 WHERE c = {lit}"))).map(|mut v| {
            v.sort();
            v
        });
        let must: Vec<i64> = inserted.iter().filter(|j| sshare(&st.vals[**j], &st.vals[i]) == Some(true)).map(|j| *j as i64).collect();
        let may: Vec<i64> = inserted.iter().filter(|j| sshare(&st.vals[**j], &st.vals[i]) != Some(false)).map(|j| *j as i64).collect();
        let ok = match &got {
            Some(g) => must.iter().all(|m| g.contains(m)) && g.iter().all(|x| may.contains(x)),
            None => false,
        };
        if ok {
            rep.outcome("sql-lookup:found");
        } else if got == twin {
            // same answer without the index: not a key-encoding matter (SQL semantics, other properties)
            rep.count("sql_lookup_wrong_with_and_without_index_not_attributed", 1);
        } else if lookup_ok_on_single_row_table(st, i, lit, ctx) {
            // the same literal finds the same stored value through the same kind of index when it is
            // the only row: both encoders agree, the miss is a B-tree navigation matter (C28/C10)
            rep.count("sql_lookup_misses_in_big_index_but_found_in_single_row_index_not_attributed", 1);
            rep.note(&format!("sql: '{}' missed {} value {} through index ic of the {}-row table although the row is in the index (ORDER BY scan shows it) and the same lookup succeeds on a 1-row table: B-tree seek defect, not key encoding", vcore::util::clip(&sql, 80), tname, scls(&st.vals[i]), inserted.len()));
        } else {
            let kind = match &got {
                None => "error",
                Some(g) if !must.iter().all(|m| g.contains(m)) => "not-found",
                _ => "extra-rows",
            };
            let mut m2 = must.clone();
            m2.sort();
            rep.violation(
                "C26",
                "sql-lookup",
                &format!("C26/sql-lookup/{tname}/{}/found>{kind}", scls(&st.vals[i])),
                || json!({"pass": "sql", "scenario": "order", "type": tname, "tier": tier.name(), "sql": sql}),
                &format!("ids {m2:?}"),
                &format!("index: {got:?}; same query on the unindexed twin: {twin:?}"),
            );
        }
    }
}

fn lookup_ok_on_single_row_table(st: &SqlTy, i: usize, lit: &str, ctx: &Ctx) -> bool {
    let Ok(t) = TestDb::create(&ctx.scratch, &format!("one_{}", st.name)) else { return false };
    if !t.exec(&format!("CREATE TABLE t(id INT PRIMARY KEY, c {})", st.decl)).ok() || !t.exec("CREATE INDEX ic ON t(c)").ok() {
        return false;
    }
    if !exec_params(t.db(), "INSERT INTO t VALUES (?, ?)", &[OwnedValue::Int(i as i64), st.vals[i].ov.clone()]).ok() {
        return false;
    }
    let sql = format!("SELECT id FROM t WHERE c = {lit}");
    if !explain(t.db(), &sql).unwrap_or_default().contains("SecondaryIndexScan on t using ic") {
        return false;
    }
    ids_of(&t.exec(&sql)) == Some(vec![i as i64])
}

fn fresh_unique(ctx: &Ctx, name: &str, decl: &str) -> Option<TestDb> {
    let t = TestDb::create(&ctx.scratch, name).ok()?;
    if !t.exec(&format!("CREATE TABLE u(id INT PRIMARY KEY, c {decl} UNIQUE)")).ok() {
        return None;
    }
    Some(t)
}
fn is_unique_err(r: &Res) -> bool {
    match r {
        Res::Err(e) => {
            let l = e.to_lowercase();
            l.contains("unique") || l.contains("already exists") || l.contains("duplicate")
        }
        _ => false,
    }
}

/// UNIQUE: distinct values are accepted, equal values are rejected
fn sql_unique(st: &SqlTy, tier: Tier, ctx: &Ctx, rep: &mut Reporter) {
    let tname = st.name;
    let case = || sql_case("unique", tname, tier);
    let Some(t) = fresh_unique(ctx, &format!("uq_{tname}"), st.decl) else {
        rep.note(&format!("sql: UNIQUE table for {tname} could not be created"));
        return;
    };
    let mut accepted: Vec<usize> = Vec::new();
    for i in 0..st.vals.len() {
        let r = exec_params(t.db(), "INSERT INTO u VALUES (?, ?)", &[OwnedValue::Int(i as i64), st.vals[i].ov.clone()]);
        let expect_reject = accepted.iter().any(|j| sshare(&st.vals[*j], &st.vals[i]) == Some(true));
        let tolerated = accepted.iter().any(|j| sshare(&st.vals[*j], &st.vals[i]).is_none());
        if r.ok() {
            if expect_reject {
                let j = accepted.iter().find(|j| sshare(&st.vals[**j], &st.vals[i]) == Some(true)).unwrap();
                rep.violation("C26", "sql-unique", &format!("C26/sql-unique/{tname}/{}-vs-{}/reject>accept", scls(&st.vals[*j]), scls(&st.vals[i])), case, "UNIQUE rejects an equal value (equal values share one key)", "accepted");
            } else {
                rep.count("sql_unique_accepts", 1);
            }
            accepted.push(i);
        } else if is_unique_err(&r) {
            if expect_reject {
                rep.count("sql_unique_rejects_of_equal_values", 1);
            } else if tolerated {
                rep.count("sql_unique_tolerated_rejects", 1);
            } else {
                // find the earlier value it collides with (fresh table per candidate)
                let mut with = "unknown".to_string();
                for j in &accepted {
                    if let Some(p) = fresh_unique(ctx, &format!("uqp_{tname}"), st.decl) {
                        let a = exec_params(p.db(), "INSERT INTO u VALUES (?, ?)", &[OwnedValue::Int(1), st.vals[*j].ov.clone()]);
                        let b = exec_params(p.db(), "INSERT INTO u VALUES (?, ?)", &[OwnedValue::Int(2), st.vals[i].ov.clone()]);
                        if a.ok() && is_unique_err(&b) {
                            with = scls(&st.vals[*j]);
                            break;
                        }
                    }
                }
                rep.violation(
                    "C26",
                    "sql-unique",
                    &format!("C26/sql-unique/{tname}/{with}-vs-{}/accept>reject", scls(&st.vals[i])),
                    case,
                    "distinct values have distinct keys: UNIQUE accepts both",
                    &r.show(),
                );
            }
        } else {
            rep.count("sql_inserts_refused", 1);
            rep.outcome(&format!("sql-unique-insert:{}", r.class()));
        }
    }
    // second round: every accepted value again under a new id
    let mut reported = 0;
    for (n, i) in accepted.iter().enumerate() {
        let r = exec_params(t.db(), "INSERT INTO u VALUES (?, ?)", &[OwnedValue::Int((st.vals.len() + n) as i64), st.vals[*i].ov.clone()]);
        if is_unique_err(&r) {
            rep.count("sql_unique_rejects_of_equal_values", 1);
        } else if reported < 8 {
            reported += 1;
            rep.violation("C26", "sql-unique", &format!("C26/sql-unique/{tname}/{}/same-value-reject>{}", scls(&st.vals[*i]), r.class()), case, "UNIQUE rejects the same value again", &r.show());
        }
    }
}

/// Observation only (never a C26 verdict): IndexNestedLoopJoin probes the index with
/// `Value::encode_to_key`, the index is written with `encode_value_as_key`; when the two
/// encoders disagree for a type the join finds nothing.  Agreement of two encoders is not part
/// of the C26 statement (it belongs to C10/C17), so it is only counted and noted.
fn sql_joinprobe(st: &SqlTy, ctx: &Ctx, rep: &mut Reporter) {
    let Ok(t) = TestDb::create(&ctx.scratch, &format!("jp_{}", st.name)) else { return };
    for ddl in [format!("CREATE TABLE a(id INT PRIMARY KEY, x {})", st.decl), format!("CREATE TABLE b(id INT PRIMARY KEY, c {})", st.decl), "CREATE INDEX ibc ON b(c)".to_string()] {
        if !t.exec(&ddl).ok() {
            return;
        }
    }
    let n = st.vals.len().min(12);
    let mut want = 0u64;
    for i in 0..n {
        let v = &st.vals[i];
        if st.vals[..i].iter().any(|w| sshare(w, v) != Some(false)) || matches!(v.k[0], KV::Float(f) if f.is_nan()) {
            continue; // keep the expected result a plain 1:1 matching
        }
        let p = [OwnedValue::Int(i as i64), v.ov.clone()];
        if exec_params(t.db(), "INSERT INTO a VALUES (?, ?)", &p).ok() && exec_params(t.db(), "INSERT INTO b VALUES (?, ?)", &p).ok() {
            want += 1;
        }
    }
    let sql = "SELECT a.id, b.id FROM a JOIN b ON a.x = b.c";
    let plan = explain(t.db(), sql).unwrap_or_default();
    if !plan.contains("IndexNestedLoopJoin") {
        rep.count("observation_joinprobe_not_an_index_join_plan", 1);
        return;
    }
    let got = match t.exec(sql) {
        Res::Rows(r) => r.len() as u64,
        _ => u64::MAX,
    };
    if got == want {
        rep.count("observation_joinprobe_types_agreeing", 1);
    } else {
        rep.count("observation_joinprobe_types_with_mismatching_probe_key", 1);
        rep.note(&format!("observation (not a C26 verdict): IndexNestedLoopJoin on an indexed {} column returned {} of {} matching rows - Value::encode_to_key (probe) and Database::encode_value_as_key (index) disagree for this type", st.decl, if got == u64::MAX { "error".to_string() } else { got.to_string() }, want));
    }
}

/// composite secondary index (c1, c2): index order is column-wise
fn sql_composite(which: usize, tier: Tier, ctx: &Ctx, rep: &mut Reporter) {
    let blobs: Vec<Vec<u8>> = strings(&[0x00u8, 0x61, 0xFF], 2);
    let texts: Vec<String> = strings(&['\0', 'a', '\u{ff}'], 2).into_iter().map(|c| c.into_iter().collect()).collect();
    let ints = [i64::MIN, -256, -1, 0, 1, 255, i64::MAX];
    let floats = [f64::NEG_INFINITY, -1.5, -0.0, 5e-324, 1.5, f64::INFINITY, f64::NAN];
    let b = |x: &Vec<u8>| (OwnedValue::Blob(x.clone()), KV::Blob(x.clone()));
    let s = |x: &String| (OwnedValue::Text(x.clone()), KV::Text(x.clone()));
    let i = |x: &i64| (OwnedValue::Int(*x), KV::Int(*x));
    let f = |x: &f64| (OwnedValue::Float(*x), KV::Float(*x));
    let (name, d1, d2, c1, c2): (&str, &str, &str, Vec<(OwnedValue, KV)>, Vec<(OwnedValue, KV)>) = match which {
        0 => ("blob+bigint", "BLOB", "BIGINT", blobs.iter().map(b).collect(), ints.iter().map(i).collect()),
        1 => ("text+blob", "TEXT", "BLOB", texts.iter().map(s).collect(), blobs.iter().map(b).collect()),
        2 => ("double+text", "DOUBLE PRECISION", "TEXT", floats.iter().map(f).collect(), texts.iter().map(s).collect()),
        _ => ("bigint+double", "BIGINT", "DOUBLE PRECISION", ints.iter().map(i).collect(), floats.iter().map(f).collect()),
    };
    let case = || json!({"pass": "sql", "scenario": "composite", "which": which, "tier": tier.name()});
    let Ok(t) = TestDb::create(&ctx.scratch, &format!("cmp_{which}")) else { return };
    for ddl in [format!("CREATE TABLE t(id INT PRIMARY KEY, c1 {d1}, c2 {d2})"), "CREATE INDEX ic ON t(c1, c2)".to_string()] {
        if !t.exec(&ddl).ok() {
            rep.note(&format!("sql: {ddl} failed"));
            return;
        }
    }
    let mut rows: Vec<SqlVal> = Vec::new();
    for a in &c1 {
        for bb in &c2 {
            rows.push(SqlVal { ov: OwnedValue::Null, k: vec![a.1.clone(), bb.1.clone()], lit: None });
        }
    }
    let n2 = c2.len();
    let mut inserted = Vec::new();
    for r in scramble(rows.len()) {
        let p = [OwnedValue::Int(r as i64), c1[r / n2].0.clone(), c2[r % n2].0.clone()];
        if exec_params(t.db(), "INSERT INTO t VALUES (?, ?, ?)", &p).ok() {
            inserted.push(r as i64);
        } else {
            rep.count("sql_inserts_refused", 1);
        }
    }
    rep.count("sql_rows_inserted", inserted.len() as u64);
    let sql = "SELECT id FROM t ORDER BY c1";
    let plan = explain(t.db(), sql).unwrap_or_default();
    if !plan.contains("SecondaryIndexScan on t using ic") {
        rep.count("sql_order_not_an_index_plan", 1);
        return;
    }
    rep.count("sql_composite_index_plans", 1);
    let r = t.exec(sql);
    let Some(ids) = ids_of(&r) else {
        rep.violation("C26", "sql-composite", &format!("C26/sql-composite/{name}/index-scan/rows>{}", r.class()), case, "rows", &r.show());
        return;
    };
    let mut sorted = ids.clone();
    sorted.sort();
    inserted.sort();
    if sorted != inserted {
        rep.violation("C26", "sql-composite", &format!("C26/sql-composite/{name}/index-scan/all-rows>other-rows"), case, &format!("{} ids", inserted.len()), &format!("{} ids", sorted.len()));
        return;
    }
    let mut reported = 0;
    'outer: for x in 0..ids.len() {
        for y in x + 1..ids.len() {
            let (a, bb) = (&rows[ids[x] as usize], &rows[ids[y] as usize]);
            rep.count("sql_order_pairs", 1);
            if scmp(a, bb) == Some(Ordering::Greater) {
                rep.violation("C26", "sql-composite", &format!("C26/sql-composite/{name}/({})-vs-({})/index-order>inverted", scls(bb), scls(a)), case, "column-wise order", &format!("position {x} holds ({}) and position {y} holds ({})", scls(a), scls(bb)));
                reported += 1;
                if reported >= 8 {
                    break 'outer;
                }
                break;
            }
        }
    }
    rep.outcome(&format!("sql-composite:{}", if reported == 0 { "sorted" } else { "inverted" }));
}

// ---------------------------------------------------------------------------
// types::Value::encode_to_key (pub): agreement with key.rs + distinctness
// ---------------------------------------------------------------------------
fn valuekey_pass(rep: &mut Reporter) {
    use std::borrow::Cow;
    use turdb::types::Value as TV;
    let vk = |v: &TV| -> Result<Vec<u8>, String> {
        vcore::catch(|| {
            let mut b = Vec::new();
            v.encode_to_key(&mut b);
            b
        })
    };
    // (a) shared scalar types produce exactly the key.rs encoding
    let mut shared: Vec<(KV, TV)> = Vec::new();
    shared.push((KV::Null, TV::Null));
    for n in dom_i64(Tier::Quick) {
        shared.push((KV::Int(n), TV::Int(n)));
    }
    for f in dom_f64(Tier::Quick) {
        shared.push((KV::Float(f), TV::Float(f)));
    }
    for s in dom_text(Tier::Quick) {
        shared.push((KV::Text(s.clone()), TV::Text(Cow::Owned(s))));
    }
    for b in dom_blob(Tier::Quick) {
        shared.push((KV::Blob(b.clone()), TV::Blob(Cow::Owned(b))));
    }
    for u in fixed::<16>() {
        shared.push((KV::Uuid(u), TV::Uuid(u)));
    }
    for m in [i32::MIN, -1, 0, 1, i32::MAX] {
        for u in [i64::MIN, -1, 0, 1, i64::MAX] {
            shared.push((KV::Interval(m, -m.max(-5), u), TV::Interval { micros: u, days: -m.max(-5), months: m }));
        }
    }
    for (k, v) in &shared {
        let want = enc(k);
        let got = vk(v);
        rep.count("valuekey_agreement_checked", 1);
        if want.is_err() || want != got {
            rep.violation(
                "C26",
                "valuekey",
                &format!("C26/valuekey/{}/{}/same-as-key.rs>different", ty(k), cls(k)),
                || json!({"pass": "valuekey"}),
                &format!("{:?}", want.as_ref().map(|b| vcore::util::hex(b))),
                &format!("{:?}", got.as_ref().map(|b| vcore::util::hex(b))),
            );
        }
    }
    rep.bulk(shared.len() as u64, shared.len() as u64);
    // (b) the other variants: distinct values give distinct keys
    let mut groups: Vec<(&str, Vec<(String, TV)>)> = Vec::new();
    groups.push(("macaddr", fixed::<6>().into_iter().map(|m| (bclass_long(&m), TV::MacAddr(m))).collect()));
    groups.push(("inet4", fixed::<4>().into_iter().map(|m| (bclass_long(&m), TV::Inet4(m))).collect()));
    groups.push(("inet6", fixed::<16>().into_iter().map(|m| (bclass_long(&m), TV::Inet6(m))).collect()));
    let mut g = Vec::new();
    for m in [i64::MIN, -1, 0, 1, i64::MAX] {
        for z in [i32::MIN, -65536, -3600, 0, 3600, 65536, i32::MAX] {
            g.push((format!("{}_tz-{}", iclass(m), i32class(z)), TV::TimestampTz { micros: m, offset_secs: z }));
        }
    }
    groups.push(("timestamptz", g));
    let mut g = Vec::new();
    for a in [0u16, 1, 255, 256, u16::MAX] {
        for b in [0u16, 1, 255, 256, u16::MAX] {
            g.push((format!("t{a}_o{b}"), TV::Enum { type_id: a, ordinal: b }));
        }
    }
    groups.push(("enum", g));
    let mut g = Vec::new();
    for d in [i128::MIN, -256, -1, 0, 1, 255, 1i128 << 64, i128::MAX] {
        for s in [i16::MIN, -1, 0, 1, 2, i16::MAX] {
            g.push((format!("digits-{}_scale-{}", if d == i128::MIN { "min".to_string() } else if d == i128::MAX { "max".to_string() } else if d == 1i128 << 64 { "pos-2^64".to_string() } else { iclass(d as i64) }, iclass(s as i64)), TV::Decimal { digits: d, scale: s }));
        }
    }
    groups.push(("decimal", g));
    for (name, g) in &groups {
        let encs: Vec<Result<Vec<u8>, String>> = g.iter().map(|(_, v)| vk(v)).collect();
        for i in 0..g.len() {
            for j in i + 1..g.len() {
                rep.count("valuekey_distinct_pairs", 1);
                if encs[i].is_err() || encs[i] == encs[j] {
                    rep.violation("C26", "valuekey", &format!("C26/valuekey/{name}/{}-vs-{}/distinct-keys>same-key", g[i].0, g[j].0), || json!({"pass": "valuekey"}), "distinct keys", &format!("{:?}", encs[i]));
                }
            }
        }
        let n = g.len() as u64;
        rep.bulk(n * (n - 1) / 2, n * (n - 1) / 2);
    }
}

// ---------------------------------------------------------------------------
// the check
// ---------------------------------------------------------------------------
struct C26;

impl Check for C26 {
    fn specs(&self) -> Vec<Spec> {
        let mut s = Spec::new(
            "C26",
            "exploration",
            "a case is one unordered pair of values (or of 2-/3-column tuples) from stated finite boundary domains, evaluated on the real encoders/decoder of src/encoding/key.rs. Per encodable type every pair (incl. self pairs) of the type's domain: ints 0, +-(2^k-1, 2^k, 2^k+1) for every k<=62, i64 MIN/MIN+1/MAX-1/MAX (thorough: also -300..300 and every value with a single non-zero byte); floats +-{0, subnormal min/max, min normal, 0.5, 1-ulp, 1, 1+ulp, 1.5, 2, 255, 256, 2^53, 2^63, 1e300, max, inf, quiet/signalling/all-ones NaN} plus +-{4 mantissas} x 143 exponents (thorough: 8 mantissas x all 2047 exponents); text: every string of <=4 chars over {U+0,U+1,a,U+FF,U+10FFFF} (thorough 8 chars); blob: every byte string of length <=4 over {00,01,61,FE,FF} (thorough 10 bytes); boundary grids for date/time/timestamp/timestamptz/interval/uuid/macaddr/inet/enum; JSON: scalars (12 numbers, 7 strings), arrays of <=2 (3) over 12 elements, objects of <=2 entries over 20 (49) key/value entries incl. empty and NUL-leading keys; arrays <=3, tuples/composites <=2 over an 11 (15)-element mixed mini-domain; domains; 196 ranges; vectors of dimension <=3 over 16 f32 classes; every int x float pair of the quick domains; representatives of every type against every other type; every pair of 2-column tuples over 56 mixed values and of 3-column tuples over 18 (32) values. Per value: append semantics, encode_value dispatcher, decode_key alone and with 10 trailing-byte variants. Through SQL (Database::encode_value_as_key is pub(crate)): per SQL type (bool, bigint, double, text, blob, date, time, timestamp, timestamptz, interval, uuid, macaddr, vector) a table with a secondary index filled with the whole domain (<=1500 values) in scrambled order, index order read back with ORDER BY answered by SecondaryIndexScan (asc+desc, all pairs of positions), point lookups through the index for literal-capable values, a UNIQUE column that must accept all distinct and reject all equal values, four composite (c1,c2) indexes. Distinct = distinct pair by construction of the enumeration; non-trivial = the two values differ.",
        );
        s.assumptions = &[
            "reference order is written from the module docs of src/encoding/key.rs: type rank = documented prefix groups; numbers: -inf < negatives < zero < positives < +inf < NaN, int 0 / float +-0 share one key and decode as Int(0); text/blob bytewise; struct-like types (timestamptz, interval, enum, domain, composite) field-wise in encoded field order; arrays/tuples/JSON arrays/objects lexicographic with a shorter prefix first; JSON kinds ranked by their documented prefixes",
            "tolerated (counted, not demanded): order of int vs float of the same sign, order/distinctness of -0 vs +0 and of NaN payloads inside JSON numbers and vector components, order of inet, range and of vectors of different dimension (the docs define none); all f64 NaNs are one value",
            "SQL pass: only plans that EXPLAIN reports as SecondaryIndexScan are judged; a wrong point lookup that is equally wrong on an unindexed twin table is not attributed to key encoding",
            "encoders are called through the pub functions of turdb::encoding::key; Database::encode_value_as_key is reachable only through SQL",
        ];
        s.cap_quick_s = 90;
        s.cap_thorough_s = 1500;
        vec![s]
    }

    fn run(&self, ctx: &Ctx, rep: &mut Reporter) {
        let tier = ctx.tier;
        let mut block = 0u64;
        for c in ["order_pairs_defined", "decode_calls", "pairs_sharing_a_key_as_documented", "composite_pairs_defined", "composite_decode_calls", "sql_order_index_plans", "sql_lookup_index_plans", "sql_unique_accepts", "sql_unique_rejects_of_equal_values", "sql_composite_index_plans", "encode_value_dispatch_checked", "valuekey_agreement_checked"] {
            rep.expect_nonzero(c);
        }
        // ---- SQL first (few, long blocks: spread them over the workers) ----
        let stypes = sql_types(tier);
        for st in &stypes {
            for scn in ["order", "unique"] {
                block += 1;
                if ctx.mine(block) {
                    if scn == "order" {
                        sql_order(st, tier, ctx, rep);
                    } else {
                        sql_unique(st, tier, ctx, rep);
                    }
                    rep.case(vcore::util::hash_of(&("sql", st.name, scn)), true);
                }
            }
        }
        for st in &stypes {
            block += 1;
            if ctx.mine(block) {
                sql_joinprobe(st, ctx, rep);
            }
        }
        for which in 0..4 {
            block += 1;
            if ctx.mine(block) {
                sql_composite(which, tier, ctx, rep);
                rep.case(vcore::util::hash_of(&("sql-composite", which)), true);
            }
        }
        block += 1;
        if ctx.mine(block) {
            valuekey_pass(rep);
        }
        // ---- single ----
        for (name, vals) in single_domains(tier) {
            let dom = items(vals, rep);
            if !check_domain(name, &dom, ctx, rep, &mut block) {
                return;
            }
        }
        rep.sample(|| json!({"pass": "single", "a": kv2json(&KV::Blob(vec![0x00, 0xFF])), "b": kv2json(&KV::Blob(vec![0x00]))}));
        // ---- cross ----
        let dom = items(cross_domain(tier), rep);
        if !check_domain("cross", &dom, ctx, rep, &mut block) {
            return;
        }
        // ---- composite ----
        for cols in [2usize, 3] {
            if !composite_pass(cols, ctx, rep, &mut block) {
                return;
            }
        }
        rep.sample(|| json!({"pass": "composite", "a": [kv2json(&KV::Text("a".into())), kv2json(&KV::Int(0))], "b": [kv2json(&KV::Text("a\0".into())), kv2json(&KV::Null)]}));
    }

    fn replay(&self, ctx: &Ctx, case: &Value, rep: &mut Reporter) {
        let tier = match case["tier"].as_str() {
            Some("thorough") => Tier::Thorough,
            Some("quick") => Tier::Quick,
            _ => ctx.tier,
        };
        match case["pass"].as_str().unwrap_or("") {
            "single" => {
                let (Some(a), Some(b)) = (json2kv(&case["a"]), json2kv(&case["b"])) else {
                    rep.note("replay: unparsable case");
                    rep.case(0, false);
                    return;
                };
                let it = items(vec![a, b], rep);
                if it.len() == 2 {
                    value_oracles(&it[0], rep);
                    value_oracles(&it[1], rep);
                    pair_oracles(&it[0], &it[1], rep);
                }
                rep.case(1, true);
            }
            "composite" => {
                let parse = |v: &Value| -> Option<Vec<KV>> { v.as_array()?.iter().map(json2kv).collect() };
                let (Some(a), Some(b)) = (parse(&case["a"]), parse(&case["b"])) else {
                    rep.case(0, false);
                    return;
                };
                let (ia, ib) = (items(a, rep), items(b, rep));
                let (ra, rb): (Vec<&Item>, Vec<&Item>) = (ia.iter().collect(), ib.iter().collect());
                let (ea, eb) = (concat(&ra), concat(&rb));
                tuple_decode_oracle(&ra, &ea, rep);
                if ra.len() == rb.len() {
                    tuple_pair_oracle(&ra, &rb, &ea, &eb, rep);
                }
                rep.case(2, true);
            }
            "sql" => {
                let scn = case["scenario"].as_str().unwrap_or("");
                if scn == "composite" {
                    sql_composite(case["which"].as_u64().unwrap_or(0) as usize, tier, ctx, rep);
                } else {
                    let name = case["type"].as_str().unwrap_or("");
                    if let Some(st) = sql_types(tier).iter().find(|s| s.name == name) {
                        if scn == "unique" {
                            sql_unique(st, tier, ctx, rep);
                        } else {
                            sql_order(st, tier, ctx, rep);
                        }
                    }
                }
                rep.case(3, true);
            }
            "valuekey" => {
                valuekey_pass(rep);
            }
            _ => {
                rep.note("replay: unknown pass");
                rep.case(0, false);
            }
        }
    }
}

// ---------------------------------------------------------------------------
// developer probe: C26_PROBE=1 c26 "<sql>;;<sql> ## i:1 | f:nan" (not part of the check)
// ---------------------------------------------------------------------------
fn parse_param(s: &str) -> OwnedValue {
    let s = s.trim();
    let (k, v) = s.split_once(':').unwrap_or((s, ""));
    let fixedn = |n: usize| {
        let mut b = vcore::util::unhex(v);
        b.resize(n, 0);
        b
    };
    match k {
        "i" => OwnedValue::Int(v.parse().unwrap_or(0)),
        "f" => OwnedValue::Float(match v {
            "nan" => f64::NAN,
            "inf" => f64::INFINITY,
            "-inf" => f64::NEG_INFINITY,
            "-0" => -0.0,
            _ => v.parse().unwrap_or(0.0),
        }),
        "t" => OwnedValue::Text(String::from_utf8(vcore::util::unhex(v)).unwrap_or_default()),
        "s" => OwnedValue::Text(v.to_string()),
        "b" => OwnedValue::Blob(vcore::util::unhex(v)),
        "bool" => OwnedValue::Bool(v == "1"),
        "date" => OwnedValue::Date(v.parse().unwrap_or(0)),
        "time" => OwnedValue::Time(v.parse().unwrap_or(0)),
        "ts" => OwnedValue::Timestamp(v.parse().unwrap_or(0)),
        "tstz" => {
            let (a, b) = v.split_once(',').unwrap_or((v, "0"));
            OwnedValue::TimestampTz(a.parse().unwrap_or(0), b.parse().unwrap_or(0))
        }
        "uuid" => OwnedValue::Uuid(fixedn(16).try_into().unwrap_or([0; 16])),
        "mac" => OwnedValue::MacAddr(fixedn(6).try_into().unwrap_or([0; 6])),
        "vec" => OwnedValue::Vector(v.split(',').map(|x| x.parse().unwrap_or(0.0)).collect()),
        _ => OwnedValue::Null,
    }
}
fn probe() {
    vcore::quiet_panics();
    let base = std::path::PathBuf::from(format!("/dev/shm/turdb_verif/c26probe_{}", std::process::id()));
    let t = TestDb::create(&base, "db").expect("create");
    for arg in std::env::args().skip(1) {
        for stmt in arg.split(";;") {
            let s = stmt.trim();
            if s.is_empty() {
                continue;
            }
            let r = if let Some((sql, ps)) = s.split_once("##") {
                let params: Vec<OwnedValue> = ps.split('|').map(parse_param).collect();
                exec_params(t.db(), sql.trim(), &params)
            } else {
                t.exec(s)
            };
            match &r {
                Res::Rows(rows) => {
                    println!("{s}\n    => {} rows", rows.len());
                    for r in rows {
                        let cells: Vec<String> = r
                            .iter()
                            .map(|v| match v {
                                refmodel::val::V::Text(s) => format!("'{s}'"),
                                o => o.show(),
                            })
                            .collect();
                        println!("       ({})", cells.join(", "));
                    }
                }
                o => println!("{s}\n    => {}", o.show()),
            }
        }
    }
    drop(t);
    let _ = std::fs::remove_dir_all(&base);
}

fn main() {
    if std::env::var("C26_PROBE").is_ok() {
        probe();
        return;
    }
    vcore::main(&C26)
}
