//! C06 — a failing statement has no effect (SQLH engine, model_checking, self-differential).
//!
//! Tables: `t(id INT PRIMARY KEY [AUTO_INCREMENT], u INT UNIQUE, n INT NOT NULL, a INT CHECK (a >= 0))`
//! and the FK child `c(cid INT PRIMARY KEY, pid INT REFERENCES t(id) ON DELETE RESTRICT)`.
//!
//! States: every history of <= D set-up operations (C05-style, state-aware so that the set-up itself
//! stays clear of the defects C05 reports: single-key INSERT / two-row INSERT / UPDATE by key of a
//! and of the UNIQUE column / UPDATE of all rows / DELETE by key / child INSERT / child DELETE).
//! Histories are not merged (hidden state); each (history, candidate) pair gets its own fresh database.
//!
//! In every state every *failing candidate* is issued: 3-row INSERT whose k-th row (k = 1..3) violates
//! PK / UNIQUE / NOT NULL / CHECK / FK, carries a type error, or the statement names a missing
//! column / table; multi-row UPDATE whose k-th updated row violates UNIQUE / CHECK / NOT NULL / PK (or
//! type error / missing column / missing table); DELETE of FK-referenced parents (RESTRICT).
//!
//! Oracle (no model needed): whenever the candidate returns Err (or panics), the observation taken
//! right after it — both tables as bags, COUNT(*), PK and UNIQUE index lookups for every domain key,
//! and a destructive probe (re-inserting every domain key / unique value / child reference and one
//! AUTO_INCREMENT insert; Ok/Err classes and the generated id) — must equal the observation of the
//! same state without the candidate (a twin database driven by the same history = "the copy").
//! The `rel` model only classifies whether the statement SHOULD fail; wrong accepts / rejects are
//! counted, never judged (C09).
use checks::sqlh::*;
use refmodel::sql::expr::{add, col, eq, int, lit, sub};
use refmodel::sql::rel::{ColumnDef, CreateIndex, CreateTable, Delete, Insert, OnDelete, State, Stmt, TableDef, Update};
use refmodel::sql::Ty;
use refmodel::val::{bag, show_rows, Row, V};
use std::collections::{BTreeMap, BTreeSet};
use std::path::Path;
use vcore::{json, Check, Ctx, Reporter, Spec, Value};

// ---------------------------------------------------------------------------
// schema kinds
// ---------------------------------------------------------------------------
#[derive(Clone, Copy, PartialEq, Eq, Hash, Debug, PartialOrd, Ord)]
enum Kind {
    /// t(PK, UNIQUE, NOT NULL, CHECK) + FK child c (RESTRICT)
    Combo,
    /// the same with id AUTO_INCREMENT
    Auto,
    /// t(id PK, a, b) whose uniqueness comes from `CREATE UNIQUE INDEX ux ON t(a, b)` (separate statement)
    Uidx,
    /// t(id PK, a) referenced by n ON DELETE CASCADE children (ca, cb, ..) and one RESTRICT child r.
    /// TurDB visits the children in HashMap order (randomly seeded per Database), so the DELETE
    /// candidates of this kind are repeated on several fresh databases.
    Casc(u8),
}
const CASC_NAMES: [&str; 5] = ["ca", "cb", "cc", "cd", "ce"];
fn kinds(quick: bool) -> Vec<Kind> {
    if quick {
        vec![Kind::Combo, Kind::Auto, Kind::Uidx, Kind::Casc(2)]
    } else {
        vec![Kind::Combo, Kind::Auto, Kind::Uidx, Kind::Casc(2), Kind::Casc(4)]
    }
}
impl Kind {
    fn name(self) -> String {
        match self {
            Kind::Combo => "combo".into(),
            Kind::Auto => "auto".into(),
            Kind::Uidx => "uidx".into(),
            Kind::Casc(n) => format!("casc{n}"),
        }
    }
    fn parse(s: &str) -> Option<Kind> {
        match s {
            "combo" => Some(Kind::Combo),
            "auto" => Some(Kind::Auto),
            "uidx" => Some(Kind::Uidx),
            _ => s.strip_prefix("casc").and_then(|n| n.parse().ok()).filter(|n| (1..=5).contains(n)).map(Kind::Casc),
        }
    }
    fn casc_children(self) -> Vec<&'static str> {
        match self {
            Kind::Casc(n) => CASC_NAMES[..n as usize].to_vec(),
            _ => vec![],
        }
    }
    /// all tables, the parent first
    fn tables(self) -> Vec<&'static str> {
        match self {
            Kind::Combo | Kind::Auto => vec!["t", "c"],
            Kind::Uidx => vec!["t"],
            Kind::Casc(_) => {
                let mut v = vec!["t"];
                v.extend(self.casc_children());
                v.push("r");
                v
            }
        }
    }
    /// repetitions of a DELETE candidate on fresh databases (child visiting order is random per database)
    fn delete_reps(self, quick: bool, replay: bool) -> usize {
        match self {
            Kind::Casc(_) if replay => 12,
            Kind::Casc(_) => if quick { 3 } else { 4 },
            _ => 1,
        }
    }
    fn ddl(self) -> Vec<Stmt> {
        match self {
            Kind::Combo | Kind::Auto => {
                let id = ColumnDef::new("id", Ty::Int).primary_key();
                let id = if self == Kind::Auto { id.auto_increment() } else { id };
                let t = TableDef::new("t")
                    .col(id)
                    .col(ColumnDef::new("u", Ty::Int).unique())
                    .col(ColumnDef::new("n", Ty::Int).not_null())
                    .col(ColumnDef::new("a", Ty::Int).check(refmodel::sql::expr::ge(col("a"), int(0))));
                let c = TableDef::new("c").col(ColumnDef::new("cid", Ty::Int).primary_key()).col(ColumnDef::new("pid", Ty::Int).references("t", "id", OnDelete::Restrict));
                vec![Stmt::CreateTable(CreateTable::new(t)), Stmt::CreateTable(CreateTable::new(c))]
            }
            Kind::Uidx => {
                let t = TableDef::new("t").col(ColumnDef::new("id", Ty::Int).primary_key()).col(ColumnDef::new("a", Ty::Int)).col(ColumnDef::new("b", Ty::Int));
                vec![Stmt::CreateTable(CreateTable::new(t)), Stmt::CreateIndex(CreateIndex::new("ux", "t", &["a", "b"], true))]
            }
            Kind::Casc(_) => {
                let t = TableDef::new("t").col(ColumnDef::new("id", Ty::Int).primary_key()).col(ColumnDef::new("a", Ty::Int));
                let mut v = vec![Stmt::CreateTable(CreateTable::new(t))];
                for c in self.casc_children() {
                    v.push(Stmt::CreateTable(CreateTable::new(TableDef::new(c).col(ColumnDef::new("cid", Ty::Int).primary_key()).col(ColumnDef::new("pid", Ty::Int).references("t", "id", OnDelete::Cascade)))));
                }
                v.push(Stmt::CreateTable(CreateTable::new(TableDef::new("r").col(ColumnDef::new("cid", Ty::Int).primary_key()).col(ColumnDef::new("pid", Ty::Int).references("t", "id", OnDelete::Restrict)))));
                v
            }
        }
    }
}

const PK_DOMAIN: [i64; 6] = [1, 2, 3, 11, 12, 13];
const U_DOMAIN: [i64; 10] = [5, 6, 7, 8, 9, 10, 21, 22, 23, 24];
/// (a, b) pairs looked up / re-inserted on the composite unique index of kind uidx
const PAIRS: [(i64, i64); 8] = [(1, 1), (1, 2), (2, 1), (3, 1), (3, 2), (7, 7), (7, 8), (7, 9)];

// ---------------------------------------------------------------------------
// set-up operations (C05-style)
// ---------------------------------------------------------------------------
#[derive(Clone, Copy, PartialEq, Eq, Hash, Debug, PartialOrd, Ord)]
enum Op {
    Ins(u8),
    Ins2,
    UpdA(u8),
    UpdU(u8),
    UpdAll,
    Del(u8),
    InsC(u8),
    DelC(u8),
    /// kind casc: one row referencing parent k into EVERY cascade child
    InsKids(u8),
    /// kind casc: one row referencing parent k into the RESTRICT child
    InsR(u8),
    DelR(u8),
}
impl Op {
    fn name(self) -> String {
        match self {
            Op::Ins(k) => format!("INS{k}"),
            Op::Ins2 => "INSPAIR".into(),
            Op::UpdA(k) => format!("UPDA{k}"),
            Op::UpdU(k) => format!("UPDU{k}"),
            Op::UpdAll => "UPDALL".into(),
            Op::Del(k) => format!("DEL{k}"),
            Op::InsC(k) => format!("INSC{k}"),
            Op::DelC(k) => format!("DELC{k}"),
            Op::InsKids(k) => format!("INSKIDS{k}"),
            Op::InsR(k) => format!("INSR{k}"),
            Op::DelR(k) => format!("DELR{k}"),
        }
    }
    fn kind_name(self) -> &'static str {
        match self {
            Op::Ins(_) => "INS",
            Op::Ins2 => "INSPAIR",
            Op::UpdA(_) => "UPDA",
            Op::UpdU(_) => "UPDU",
            Op::UpdAll => "UPDALL",
            Op::Del(_) => "DEL",
            Op::InsC(_) => "INSC",
            Op::DelC(_) => "DELC",
            Op::InsKids(_) => "INSKIDS",
            Op::InsR(_) => "INSR",
            Op::DelR(_) => "DELR",
        }
    }
    fn all(kind: Kind) -> Vec<Op> {
        let mut v = vec![];
        let each = |v: &mut Vec<Op>, f: fn(u8) -> Op| {
            for k in 1..=3 {
                v.push(f(k));
            }
        };
        each(&mut v, Op::Ins);
        v.push(Op::Ins2);
        each(&mut v, Op::UpdA);
        if matches!(kind, Kind::Combo | Kind::Auto) {
            each(&mut v, Op::UpdU);
        }
        v.push(Op::UpdAll);
        each(&mut v, Op::Del);
        match kind {
            Kind::Combo | Kind::Auto => {
                each(&mut v, Op::InsC);
                each(&mut v, Op::DelC);
            }
            Kind::Casc(_) => {
                each(&mut v, Op::InsKids);
                each(&mut v, Op::InsR);
                each(&mut v, Op::DelR);
            }
            Kind::Uidx => {}
        }
        v
    }
    fn parse(s: &str, kind: Kind) -> Option<Op> {
        Op::all(kind).into_iter().find(|o| o.name() == s)
    }
    fn stmts(self, kind: Kind) -> Vec<Stmt> {
        let row = |k: u8| -> Row {
            let k64 = k as i64;
            match kind {
                // row of key k: u = 4 + k, n = k, a = 0 / 1 / NULL
                Kind::Combo | Kind::Auto => vec![V::Int(k64), V::Int(4 + k64), V::Int(k64), if k == 3 { V::Null } else { V::Int(k64 - 1) }],
                // pairs (1,1) (1,2) (2,1): equal a or equal b, distinct pairs
                Kind::Uidx => vec![V::Int(k64), V::Int(if k == 3 { 2 } else { 1 }), V::Int(if k == 2 { 2 } else { 1 })],
                Kind::Casc(_) => vec![V::Int(k64), V::Int(k64)],
            }
        };
        let by = |c: &str, k: u8| Some(eq(col(c), int(k as i64)));
        let kid = |k: u8| -> Vec<Row> { vec![vec![V::Int(k as i64), V::Int(k as i64)]] };
        match self {
            Op::Ins(k) => vec![Stmt::Insert(Insert::literals("t", &[], vec![row(k)]))],
            Op::Ins2 => vec![Stmt::Insert(Insert::literals("t", &[], vec![row(1), row(2)]))],
            Op::UpdA(k) => vec![Stmt::Update(Update::new("t", vec![("a", add(col("a"), int(2)))], by("id", k)))],
            Op::UpdU(k) => vec![Stmt::Update(Update::new("t", vec![("u", int(7 + k as i64))], by("id", k)))],
            Op::UpdAll => vec![Stmt::Update(Update::new("t", vec![("a", add(col("a"), int(1)))], None))],
            Op::Del(k) => vec![Stmt::Delete(Delete::new("t", by("id", k)))],
            Op::InsC(k) => vec![Stmt::Insert(Insert::literals("c", &[], kid(k)))],
            Op::DelC(k) => vec![Stmt::Delete(Delete::new("c", by("cid", k)))],
            Op::InsKids(k) => kind.casc_children().into_iter().map(|c| Stmt::Insert(Insert::literals(c, &[], kid(k)))).collect(),
            Op::InsR(k) => vec![Stmt::Insert(Insert::literals("r", &[], kid(k)))],
            Op::DelR(k) => vec![Stmt::Delete(Delete::new("r", by("cid", k)))],
        }
    }
}

/// model + tombstone bookkeeping of a set-up history
#[derive(Clone)]
struct Track {
    kind: Kind,
    st: State,
    /// t carries tombstones
    tomb_t: bool,
    /// (child table, key) that carries a tombstone
    tomb_c: BTreeSet<(&'static str, u8)>,
}
impl Track {
    fn new(kind: Kind) -> Track {
        let mut st = State::new();
        for s in kind.ddl() {
            s.apply(&mut st).expect("model DDL");
        }
        Track { kind, st, tomb_t: false, tomb_c: BTreeSet::new() }
    }
    fn ids(&self, table: &str) -> Vec<u8> {
        self.st.rows(table).iter().filter_map(|r| if let V::Int(i) = r[0] { Some(i as u8) } else { None }).collect()
    }
    /// referenced by a RESTRICT child
    fn referenced(&self, k: u8) -> bool {
        let tab = if matches!(self.kind, Kind::Casc(_)) { "r" } else { "c" };
        self.st.rows(tab).iter().any(|r| r[1] == V::Int(k as i64))
    }
    fn u_of(&self, k: u8) -> Option<i64> {
        self.st.rows("t").iter().find(|r| r[0] == V::Int(k as i64)).and_then(|r| if let V::Int(u) = r[1] { Some(u) } else { None })
    }
    /// set-up operations enabled in this state: only statements that succeed, change something and stay
    /// clear of the C05 findings (no statement covers a tombstoned row, no partially failing insert)
    fn enabled(&self) -> Vec<Op> {
        let live = self.ids("t");
        let combo = matches!(self.kind, Kind::Combo | Kind::Auto);
        let first_kid = self.kind.casc_children().first().copied().unwrap_or("c");
        Op::all(self.kind)
            .into_iter()
            .filter(|op| match *op {
                Op::Ins(k) => !live.contains(&k),
                Op::Ins2 => !live.contains(&1) && !live.contains(&2),
                // (combo: not on the NULL a of row 3)
                Op::UpdA(k) => live.contains(&k) && !(combo && k == 3),
                Op::UpdU(k) => live.contains(&k) && self.u_of(k) == Some(4 + k as i64),
                // (`a + 1` on a NULL a is rejected by TurDB: "unsupported types" — keep it out of the set-up)
                Op::UpdAll => !live.is_empty() && !self.tomb_t && !(combo && live.contains(&3)),
                Op::Del(k) => live.contains(&k) && !self.referenced(k),
                Op::InsC(k) => live.contains(&k) && !self.ids("c").contains(&k) && !self.tomb_c.contains(&("c", k)),
                Op::DelC(k) => self.ids("c").contains(&k),
                Op::InsKids(k) => live.contains(&k) && !self.ids(first_kid).contains(&k) && !self.tomb_c.contains(&(first_kid, k)),
                Op::InsR(k) => live.contains(&k) && !self.ids("r").contains(&k) && !self.tomb_c.contains(&("r", k)),
                Op::DelR(k) => self.ids("r").contains(&k),
            })
            // and the model accepts it (e.g. no (a, b) collision on the unique index)
            .filter(|op| {
                let mut st = self.st.clone();
                op.stmts(self.kind).iter().all(|s| s.apply(&mut st).is_ok())
            })
            .collect()
    }
    fn apply(&mut self, op: Op) -> bool {
        match op {
            Op::Del(k) => {
                self.tomb_t = true;
                // cascaded child rows become tombstones too
                for c in self.kind.casc_children() {
                    if self.ids(c).contains(&k) {
                        self.tomb_c.insert((c, k));
                    }
                }
            }
            Op::DelC(k) => {
                self.tomb_c.insert(("c", k));
            }
            Op::DelR(k) => {
                self.tomb_c.insert(("r", k));
            }
            _ => {}
        }
        op.stmts(self.kind).iter().all(|s| s.apply(&mut self.st).is_ok())
    }
}

// ---------------------------------------------------------------------------
// failing candidates
// ---------------------------------------------------------------------------
#[derive(Clone, Debug)]
struct Cand {
    /// unique name, e.g. "insert3/k=2/unique"
    name: String,
    /// statement kind of the signature: insert3 | insert3-auto | insert3-child | update-multi | delete-parent
    skind: &'static str,
    /// failing row position by construction (0 = statement level / state dependent)
    k: u8,
    thing: &'static str,
    stmt: Stmt,
    sql: String,
    /// multi-row statements over t without a key: skipped when t carries tombstones (C05 findings)
    needs_clean_t: bool,
}
impl Cand {
    fn is_delete(&self) -> bool {
        matches!(self.stmt, Stmt::Delete(_))
    }
}
fn cand(skind: &'static str, k: u8, thing: &'static str, variant: &str, stmt: Stmt, needs_clean_t: bool) -> Cand {
    let sql = stmt.to_sql();
    Cand { name: format!("{skind}/k={k}/{thing}{variant}"), skind, k, thing, stmt, sql, needs_clean_t }
}
fn candidates(kind: Kind) -> Vec<Cand> {
    match kind {
        Kind::Combo | Kind::Auto => candidates_combo(kind),
        Kind::Uidx => candidates_uidx(),
        Kind::Casc(_) => candidates_casc(),
    }
}

/// kind uidx: statements violating the composite UNIQUE INDEX ux(a, b) (or the PK)
fn candidates_uidx() -> Vec<Cand> {
    let mut v = vec![];
    let row = |id: i64, a: i64, b: i64| -> Row { vec![V::Int(id), V::Int(a), V::Int(b)] };
    // single-row INSERT duplicating the pair of set-up row k (fails iff that pair is present)
    for (k, (a, b)) in [(1u8, (1, 1)), (2, (1, 2)), (3, (2, 1))] {
        v.push(cand("insert1", 1, "unique-index", &format!("-pair{k}"), Stmt::Insert(Insert::literals("t", &[], vec![row(11, a, b)])), false));
    }
    v.push(cand("insert1", 1, "unique-index", "-moved-pair", Stmt::Insert(Insert::literals("t", &[], vec![row(11, 3, 1)])), false));
    v.push(cand("insert1", 1, "pk", "", Stmt::Insert(Insert::literals("t", &[], vec![row(1, 9, 9)])), false));
    // 3-row INSERT whose k-th row duplicates a stored pair / an earlier pair of the statement / a stored id
    let good = |i: usize| row(11 + i as i64, 7, 7 + i as i64);
    for k in 0..3usize {
        for (variant, bad) in [("-pair1", row(11 + k as i64, 1, 1)), ("-pair3", row(11 + k as i64, 2, 1))] {
            let rows: Vec<Row> = (0..3).map(|i| if i == k { bad.clone() } else { good(i) }).collect();
            v.push(cand("insert3", k as u8 + 1, "unique-index", variant, Stmt::Insert(Insert::literals("t", &[], rows)), false));
        }
        if k > 0 {
            let rows: Vec<Row> = (0..3).map(|i| if i == k { row(11 + k as i64, 7, 7) } else { good(i) }).collect();
            v.push(cand("insert3", k as u8 + 1, "unique-index", "-in-stmt", Stmt::Insert(Insert::literals("t", &[], rows)), false));
        }
        let rows: Vec<Row> = (0..3).map(|i| if i == k { row(1, 8, 8) } else { good(i) }).collect();
        v.push(cand("insert3", k as u8 + 1, "pk", "", Stmt::Insert(Insert::literals("t", &[], rows)), false));
    }
    // UPDATE making two rows equal on (a, b)
    let upd = |set: Vec<(&str, refmodel::sql::expr::Expr)>, w: Option<refmodel::sql::expr::Expr>| Stmt::Update(Update::new("t", set, w));
    v.push(cand("update-multi", 0, "unique-index", "-b-to-1", upd(vec![("b", int(1))], None), true));
    v.push(cand("update-multi", 0, "unique-index", "-a-to-1", upd(vec![("a", int(1))], None), true));
    v.push(cand("update-multi", 0, "unique-index", "-ab-to-5", upd(vec![("a", int(5)), ("b", int(5))], None), true));
    for k in 1..=3i64 {
        v.push(cand("update-one", 1, "unique-index", &format!("-id{k}-to-pair1"), upd(vec![("a", int(1)), ("b", int(1))], Some(eq(col("id"), int(k)))), false));
        v.push(cand("update-one", 1, "unique-index", &format!("-id{k}-b-to-2"), upd(vec![("b", int(2))], Some(eq(col("id"), int(k)))), false));
    }
    v.push(cand("update-multi", 0, "pk", "", upd(vec![("id", int(1))], None), true));
    v
}

/// kind casc: DELETE of a parent referenced from the RESTRICT child (and from every CASCADE child)
fn candidates_casc() -> Vec<Cand> {
    let mut v = vec![cand("delete-parent-cascade", 0, "fk", "-all", Stmt::Delete(Delete::new("t", None)), true)];
    for k in 1..=3i64 {
        v.push(cand("delete-parent-cascade", 1, "fk", &format!("-id{k}"), Stmt::Delete(Delete::new("t", Some(eq(col("id"), int(k))))), false));
    }
    v
}

fn candidates_combo(kind: Kind) -> Vec<Cand> {
    let mut v = vec![];
    let good = |i: usize| -> Row { vec![V::Int(11 + i as i64), V::Int(21 + i as i64), V::Int(0), V::Int(0)] };
    let x = || V::Text("x".into());
    // ---- 3-row INSERT into t, explicit ids
    let bad_rows: Vec<(&'static str, &'static str, Box<dyn Fn(usize) -> Option<Row>>)> = vec![
        ("pk", "", Box::new(move |i| Some(vec![V::Int(1), V::Int(24), V::Int(0), V::Int(0)]).filter(|_| i < 3))),
        ("pk", "-in-stmt", Box::new(move |i| if i == 0 { None } else { Some(vec![V::Int(11), V::Int(24), V::Int(0), V::Int(0)]) })),
        ("unique", "", Box::new(move |i| Some(vec![V::Int(11 + i as i64), V::Int(5), V::Int(0), V::Int(0)]))),
        ("unique", "-in-stmt", Box::new(move |i| if i == 0 { None } else { Some(vec![V::Int(11 + i as i64), V::Int(21), V::Int(0), V::Int(0)]) })),
        ("notnull", "", Box::new(move |i| Some(vec![V::Int(11 + i as i64), V::Int(21 + i as i64), V::Null, V::Int(0)]))),
        ("check", "", Box::new(move |i| Some(vec![V::Int(11 + i as i64), V::Int(21 + i as i64), V::Int(0), V::Int(-1)]))),
        ("type", "", Box::new(move |i| Some(vec![V::Int(11 + i as i64), V::Int(21 + i as i64), V::Text("x".into()), V::Int(0)]))),
    ];
    for (thing, variant, f) in &bad_rows {
        for k in 0..3usize {
            if let Some(bad) = f(k) {
                let rows: Vec<Row> = (0..3).map(|i| if i == k { bad.clone() } else { good(i) }).collect();
                v.push(cand("insert3", k as u8 + 1, thing, variant, Stmt::Insert(Insert::literals("t", &[], rows)), false));
            }
        }
    }
    let goods: Vec<Row> = (0..3).map(good).collect();
    v.push(cand("insert3", 0, "missing-col", "", Stmt::Insert(Insert::literals("t", &["id", "u", "n", "zz"], goods.clone())), false));
    v.push(cand("insert3", 0, "missing-table", "", Stmt::Insert(Insert::literals("zz", &[], goods.clone())), false));
    // ---- 3-row INSERT into t, generated ids
    if kind == Kind::Auto {
        let g3 = |i: usize| -> Row { vec![V::Int(21 + i as i64), V::Int(0), V::Int(0)] };
        let bads: Vec<(&'static str, Row)> = vec![("unique", vec![V::Int(5), V::Int(0), V::Int(0)]), ("notnull", vec![V::Int(24), V::Null, V::Int(0)]), ("check", vec![V::Int(24), V::Int(0), V::Int(-1)]), ("type", vec![V::Int(24), x(), V::Int(0)])];
        for (thing, bad) in &bads {
            for k in 0..3usize {
                let rows: Vec<Row> = (0..3).map(|i| if i == k { bad.clone() } else { g3(i) }).collect();
                v.push(cand("insert3-auto", k as u8 + 1, thing, "", Stmt::Insert(Insert::literals("t", &["u", "n", "a"], rows)), false));
            }
        }
    }
    // ---- 3-row INSERT into the child: k-th row references a missing parent / repeats a child key
    for k in 0..3usize {
        let rows: Vec<Row> = (0..3).map(|i| vec![V::Int(11 + i as i64), if i == k { V::Int(9) } else { V::Null }]).collect();
        v.push(cand("insert3-child", k as u8 + 1, "fk", "", Stmt::Insert(Insert::literals("c", &[], rows)), false));
        let rows: Vec<Row> = (0..3).map(|i| vec![if i == k { V::Int(1) } else { V::Int(11 + i as i64) }, V::Null]).collect();
        v.push(cand("insert3-child", k as u8 + 1, "pk", "", Stmt::Insert(Insert::literals("c", &[], rows)), false));
    }
    // ---- multi-row UPDATE of t (position of the failing row depends on the state)
    let upd = |set: Vec<(&str, refmodel::sql::expr::Expr)>| Stmt::Update(Update::new("t", set, None));
    v.push(cand("update-multi", 0, "unique", "-to-5", upd(vec![("u", int(5))]), true));
    v.push(cand("update-multi", 0, "unique", "-to-30", upd(vec![("u", int(30))]), true));
    for d in 1..=3i64 {
        v.push(cand("update-multi", 0, "check", &format!("-minus-{d}"), upd(vec![("a", sub(col("a"), int(d)))]), true));
    }
    v.push(cand("update-multi", 0, "notnull", "", upd(vec![("n", col("a"))]), true));
    v.push(cand("update-multi", 0, "type", "", upd(vec![("n", lit(x()))]), true));
    v.push(cand("update-multi", 0, "pk", "", upd(vec![("id", int(1))]), true));
    v.push(cand("update-multi", 0, "missing-col", "", upd(vec![("zz", int(1))]), true));
    v.push(cand("update-multi", 0, "missing-table", "", Stmt::Update(Update::new("zz", vec![("a", int(1))], None)), false));
    // ---- DELETE of referenced parents
    v.push(cand("delete-parent", 0, "fk", "-all", Stmt::Delete(Delete::new("t", None)), true));
    for k in 1..=3i64 {
        v.push(cand("delete-parent", 1, "fk", &format!("-id{k}"), Stmt::Delete(Delete::new("t", Some(eq(col("id"), int(k))))), false));
    }
    v
}

/// position (1-based, capped at 3) of the first row — in table order — at which a row-at-a-time
/// execution of the multi-row UPDATE / DELETE fails; 0 if none does
fn failing_position(tr: &Track, c: &Cand) -> u8 {
    let ids: Vec<i64> = tr.st.rows("t").iter().filter_map(|r| if let V::Int(i) = r[0] { Some(i) } else { None }).collect();
    let mut st = tr.st.clone();
    for (i, id) in ids.iter().enumerate() {
        let one = match &c.stmt {
            Stmt::Update(u) if u.where_.is_none() && u.table == "t" => Stmt::Update(Update::new("t", u.set.iter().map(|(c, e)| (c.as_str(), e.clone())).collect(), Some(eq(col("id"), int(*id))))),
            Stmt::Delete(d) if d.where_.is_none() && d.table == "t" => Stmt::Delete(Delete::new("t", Some(eq(col("id"), int(*id))))),
            _ => return c.k,
        };
        if one.apply(&mut st).is_err() {
            return (i as u8 + 1).min(3);
        }
    }
    0
}

// ---------------------------------------------------------------------------
// observation
// ---------------------------------------------------------------------------
/// layout: `SELECT *` of every table, `COUNT(*)` of every table, then the index lookups
fn obs_queries(kind: Kind) -> Vec<String> {
    let tabs = kind.tables();
    let mut q: Vec<String> = tabs.iter().map(|t| format!("SELECT * FROM {t}")).collect();
    q.extend(tabs.iter().map(|t| format!("SELECT COUNT(*) FROM {t}")));
    match kind {
        Kind::Combo | Kind::Auto => {
            for k in PK_DOMAIN {
                q.push(format!("SELECT * FROM t WHERE id = {k}"));
            }
            for v in U_DOMAIN {
                q.push(format!("SELECT * FROM t WHERE u = {v}"));
            }
            for k in PK_DOMAIN {
                q.push(format!("SELECT * FROM c WHERE cid = {k}"));
            }
        }
        Kind::Uidx => {
            for k in PK_DOMAIN {
                q.push(format!("SELECT * FROM t WHERE id = {k}"));
            }
            for (a, b) in PAIRS {
                q.push(format!("SELECT * FROM t WHERE a = {a} AND b = {b}"));
            }
        }
        Kind::Casc(_) => {
            for k in 1..=3 {
                q.push(format!("SELECT * FROM t WHERE id = {k}"));
            }
            for c in &tabs[1..] {
                for k in 1..=3 {
                    q.push(format!("SELECT * FROM {c} WHERE cid = {k}"));
                }
            }
        }
    }
    q
}

#[derive(Clone, Debug, PartialEq)]
struct Probe {
    /// (statement, outcome class) of every destructive probe statement, in order
    items: Vec<(String, String)>,
    /// id generated by the AUTO_INCREMENT probe (kind auto)
    generated: Option<String>,
}
/// Destructive probe: what would the database accept next?  (FK probes first, then key re-inserts.)
fn probe(t: &TestDb, kind: Kind) -> Probe {
    let mut items = vec![];
    let mut generated = None;
    let cls = |r: &Res| -> String {
        match r {
            Res::Err(e) => {
                let e = e.to_ascii_lowercase();
                format!("err:{}", if e.contains("primary key") { "pk" } else if e.contains("unique") { "unique" } else if e.contains("foreign key") { "fk" } else { "other" })
            }
            o => o.class().to_string(),
        }
    };
    let mut run = |items: &mut Vec<(String, String)>, sql: String| {
        let r = t.exec(&sql);
        items.push((sql, cls(&r)));
    };
    match kind {
        Kind::Combo | Kind::Auto => {
            if kind == Kind::Auto {
                let r = t.exec("INSERT INTO t (u, n, a) VALUES (999, 0, 0)");
                items.push(("auto-increment insert".to_string(), cls(&r)));
                generated = Some(match t.exec("SELECT * FROM t WHERE u = 999") {
                    Res::Rows(rows) => show_rows(&rows.iter().map(|r| vec![r[0].clone()]).collect::<Vec<_>>()),
                    o => o.class().to_string(),
                });
            }
            for k in PK_DOMAIN {
                run(&mut items, format!("INSERT INTO c VALUES ({}, {k})", 700 + k));
            }
            for k in PK_DOMAIN {
                run(&mut items, format!("INSERT INTO c VALUES ({k}, NULL)"));
            }
            for k in PK_DOMAIN {
                run(&mut items, format!("INSERT INTO t VALUES ({k}, {}, 0, 0)", 900 + k));
            }
            for v in U_DOMAIN {
                run(&mut items, format!("INSERT INTO t VALUES ({}, {v}, 0, 0)", 800 + v));
            }
        }
        Kind::Uidx => {
            for k in PK_DOMAIN {
                run(&mut items, format!("INSERT INTO t VALUES ({k}, {}, {})", 900 + k, 900 + k));
            }
            for (i, (a, b)) in PAIRS.iter().enumerate() {
                run(&mut items, format!("INSERT INTO t VALUES ({}, {a}, {b})", 800 + i));
            }
        }
        Kind::Casc(_) => {
            let tabs = kind.tables();
            for c in &tabs[1..] {
                for k in 1..=3 {
                    run(&mut items, format!("INSERT INTO {c} VALUES ({}, {k})", 700 + k));
                }
            }
            for c in &tabs[1..] {
                for k in 1..=3 {
                    run(&mut items, format!("INSERT INTO {c} VALUES ({k}, NULL)"));
                }
            }
            for k in 1..=3 {
                run(&mut items, format!("INSERT INTO t VALUES ({k}, 0)"));
            }
        }
    }
    Probe { items, generated }
}

fn fresh_db(base: &Path, name: &str, kind: Kind) -> TestDb {
    let t = TestDb::create(base, name).unwrap_or_else(|e| vcore::machinery(&format!("create database: {e}")));
    for s in kind.ddl() {
        let r = t.exec(&s.to_sql());
        if !r.ok() {
            vcore::machinery(&format!("DDL {} failed: {}", s.to_sql(), r.show()));
        }
    }
    t
}

/// the state without the candidate: observation + probe of a twin database driven by the same history
struct Baseline {
    obs: Vec<ObsItem>,
    probe: Probe,
}
/// build the database after `prefix`; `Err` if the set-up itself misbehaves (C05's business)
fn build(base: &Path, name: &str, kind: Kind, prefix: &[Op], tr: &Track) -> Result<TestDb, String> {
    let t = fresh_db(base, name, kind);
    for op in prefix {
        for st in op.stmts(kind) {
            let sql = st.to_sql();
            let r = t.exec(&sql);
            if !matches!(r, Res::Affected(n, _) if n >= 1) {
                return Err(format!("set-up statement {sql} gave {}", r.show()));
            }
        }
    }
    for tab in kind.tables() {
        match t.exec(&format!("SELECT * FROM {tab}")) {
            Res::Rows(r) if bag(&r) == bag(&tr.st.rows(tab)) => {}
            o => return Err(format!("set-up state of {tab} is {} but the model has {}", o.show(), show_rows(&bag(&tr.st.rows(tab))))),
        }
    }
    Ok(t)
}

#[derive(Clone, Copy, PartialEq, Eq, Debug)]
enum Plant {
    None,
    /// a failing `UPDATE zz ..` (missing table) is followed by a hidden child insert
    HiddenRow,
    /// a failing missing-table INSERT is followed by a hidden insert + double delete: rows unchanged, COUNT(*) of t one too low
    HiddenCount,
    /// kind uidx: a failing single-row INSERT (unique index) leaves its row behind
    GhostRow,
    /// kind casc: a failing DELETE of a parent has already emptied the first CASCADE child
    CascadeLeak,
}
impl Plant {
    fn from_ctx(ctx: &Ctx) -> Plant {
        match ctx.opt("plant") {
            Some("hidden-row") => Plant::HiddenRow,
            Some("hidden-count") => Plant::HiddenCount,
            Some("ghost-row") => Plant::GhostRow,
            Some("cascade-leak") => Plant::CascadeLeak,
            Some(o) => vcore::machinery(&format!("unknown plant {o}")),
            None => Plant::None,
        }
    }
}

struct Verdict {
    /// outcome class of the candidate: "err" "panic" "affected" ..
    class: &'static str,
    err_text: String,
    /// (what changed, expected, observed)
    changes: Vec<(&'static str, String, String)>,
}

/// Run one candidate in the state after `prefix` on its own database and compare with the baseline;
/// `reps` > 1 repeats that on further fresh databases until a change shows (kind casc: the order in
/// which TurDB visits the child tables differs from database to database).
fn eval(base: &Path, kind: Kind, prefix: &[Op], tr: &Track, c: &Cand, bl: &Baseline, plant: Plant, reps: usize) -> Result<Verdict, String> {
    let mut last = eval_once(base, kind, prefix, tr, c, bl, plant)?;
    for _ in 1..reps {
        if !last.changes.is_empty() || !(last.class == "err" || last.class == "panic") {
            break;
        }
        last = eval_once(base, kind, prefix, tr, c, bl, plant)?;
    }
    Ok(last)
}
fn eval_once(base: &Path, kind: Kind, prefix: &[Op], tr: &Track, c: &Cand, bl: &Baseline, plant: Plant) -> Result<Verdict, String> {
    let nt = kind.tables().len();
    let t = build(base, "cand", kind, prefix, tr)?;
    let r = t.exec(&c.sql);
    match (plant, c.name.as_str()) {
        (Plant::HiddenRow, "update-multi/k=0/missing-table") if nt == 2 => {
            let _ = t.exec("INSERT INTO c VALUES (77, NULL)");
        }
        (Plant::GhostRow, n) if kind == Kind::Uidx && n.starts_with("insert1/k=1/unique-index") && !r.ok() => {
            let _ = t.exec("INSERT INTO t VALUES (11, 99, 99)");
        }
        (Plant::CascadeLeak, _) if matches!(kind, Kind::Casc(_)) && c.is_delete() && !r.ok() => {
            let _ = t.exec("DELETE FROM ca");
        }
        (Plant::HiddenCount, "insert3/k=0/missing-table") if nt == 2 => {
            let _ = t.exec("INSERT INTO t VALUES (77, 77, 0, 0)");
            let _ = t.exec("DELETE FROM t WHERE id = 77");
            let _ = t.exec("DELETE FROM t WHERE id = 77");
        }
        _ => {}
    }
    let mut v = Verdict { class: r.class(), err_text: String::new(), changes: vec![] };
    match &r {
        Res::Err(e) | Res::Panic(e) => v.err_text = e.clone(),
        _ => return Ok(v),
    }
    let obs = observe(t.db(), &obs_queries(kind));
    let rows_of = |o: &[ObsItem], i: usize| -> Option<Vec<Row>> {
        match &o[i].res {
            Res::Rows(r) => Some(r.clone()),
            _ => None,
        }
    };
    let count_of = |o: &[ObsItem], i: usize| -> Option<i64> {
        match &o[i].res {
            Res::Rows(r) if r.len() == 1 => match r[0].first() {
                Some(V::Int(n)) => Some(*n),
                _ => None,
            },
            _ => None,
        }
    };
    // rows
    let mut rows_same = true;
    for i in 0..nt {
        if obs[i].res != bl.obs[i].res {
            rows_same = false;
            v.changes.push(("rows", format!("{} = {}", obs[i].sql, bl.obs[i].res.show()), obs[i].res.show()));
            break;
        }
    }
    // count: against the baseline when the rows are unchanged; else against the rows shown now (only if
    // COUNT(*) agreed with the rows before the statement)
    for i in 0..nt {
        let before_consistent = count_of(&bl.obs, i + nt) == rows_of(&bl.obs, i).map(|r| r.len() as i64);
        let want = if rows_same { count_of(&bl.obs, i + nt) } else { rows_of(&obs, i).map(|r| r.len() as i64) };
        if (rows_same || before_consistent) && (count_of(&obs, i + nt) != want || want.is_none()) {
            v.changes.push(("count", format!("{} = {:?}{}", obs[i + nt].sql, want, if rows_same { "" } else { " (= rows shown after the failed statement; it agreed with the rows before)" }), obs[i + nt].res.show()));
            break;
        }
    }
    // index lookups: differential against the baseline, only meaningful when the rows are unchanged
    if rows_same {
        for i in 2 * nt..obs.len() {
            if obs[i].res != bl.obs[i].res {
                v.changes.push(("index", format!("{} = {}", obs[i].sql, bl.obs[i].res.show()), obs[i].res.show()));
                break;
            }
        }
    }
    // destructive probe (meaningful only when the rows are unchanged)
    if rows_same {
        let p = probe(&t, kind);
        if p.generated != bl.probe.generated || p.items.first().filter(|_| kind == Kind::Auto) != bl.probe.items.first().filter(|_| kind == Kind::Auto) {
            v.changes.push(("autoinc", format!("next generated id {:?} ({:?})", bl.probe.generated, bl.probe.items.first()), format!("next generated id {:?} ({:?})", p.generated, p.items.first())));
        }
        let skip = if kind == Kind::Auto { 1 } else { 0 };
        for (a, b) in p.items.iter().zip(bl.probe.items.iter()).skip(skip) {
            if a != b {
                v.changes.push(("index", format!("probe {} -> {}", b.0, b.1), format!("-> {}", a.1)));
                break;
            }
        }
    }
    // one report per category
    let mut seen = BTreeSet::new();
    v.changes.retain(|c| seen.insert(c.0));
    Ok(v)
}

fn baseline(base: &Path, kind: Kind, prefix: &[Op], tr: &Track) -> Result<Baseline, String> {
    let t = build(base, "base", kind, prefix, tr)?;
    let obs = observe(t.db(), &obs_queries(kind));
    let probe = probe(&t, kind);
    Ok(Baseline { obs, probe })
}

/// `model_fails` = the reference model also rejects the statement (else the error is not the intended one)
fn signature(c: &Cand, k: u8, model_fails: bool, what: &str) -> String {
    format!("C06/{}/k={}/{}/{}", c.skind, k, if model_fails { c.thing } else { "unexpected-error" }, what)
}
fn case_json(kind: Kind, prefix: &[Op], c: &Cand) -> Value {
    json!({"kind": kind.name(), "prefix": prefix.iter().map(|o| o.name()).collect::<Vec<_>>(), "candidate": c.name,
           "sql": prefix.iter().flat_map(|o| o.stmts(kind)).map(|s| s.to_sql()).chain(std::iter::once(c.sql.clone())).collect::<Vec<_>>()})
}
fn track_of(kind: Kind, prefix: &[Op]) -> Track {
    let mut tr = Track::new(kind);
    for op in prefix {
        tr.apply(*op);
    }
    tr
}

// ---------------------------------------------------------------------------
// exploration
// ---------------------------------------------------------------------------
struct Explorer<'a> {
    ctx: &'a Ctx,
    plant: Plant,
    cands: BTreeMap<Kind, Vec<Cand>>,
    /// signatures whose first example was already minimised by this worker
    minimised: BTreeSet<String>,
    capped: bool,
    replaying: bool,
}

impl<'a> Explorer<'a> {
    fn reps(&self, kind: Kind, c: &Cand) -> usize {
        if c.is_delete() { kind.delete_reps(self.ctx.quick(), self.replaying) } else { 1 }
    }
    /// all signatures (with expected / observed) of candidate `c` in the state after `prefix`
    fn judge(&self, kind: Kind, prefix: &[Op], c: &Cand) -> Result<(Verdict, Vec<(String, String, String)>), String> {
        let tr = track_of(kind, prefix);
        let bl = baseline(&self.ctx.scratch, kind, prefix, &tr)?;
        let v = eval(&self.ctx.scratch, kind, prefix, &tr, c, &bl, self.plant, self.reps(kind, c))?;
        let k = if c.k == 0 { failing_position(&tr, c) } else { c.k };
        let model_fails = c.stmt.apply(&mut tr.st.clone()).is_err();
        let sigs = v.changes.iter().map(|(what, e, o)| (signature(c, k, model_fails, what), e.clone(), o.clone())).collect();
        Ok((v, sigs))
    }

    /// drop set-up statements while the signature still reproduces
    fn minimise(&self, kind: Kind, prefix: &[Op], c: &Cand, sig: &str) -> Vec<Op> {
        let mut cur = prefix.to_vec();
        let mut i = 0;
        while i < cur.len() {
            let mut cand = cur.clone();
            cand.remove(i);
            match self.judge(kind, &cand, c) {
                Ok((_, sigs)) if sigs.iter().any(|s| s.0 == sig) => cur = cand,
                _ => i += 1,
            }
        }
        cur
    }

    fn state(&mut self, rep: &mut Reporter, kind: Kind, prefix: &[Op], tr: &Track) {
        rep.add_states(1);
        rep.count(&format!("states:len{}", prefix.len()), 1);
        if let Some(op) = prefix.last() {
            rep.count(&format!("setup_op:{}", op.kind_name()), 1);
        }
        let bl = match baseline(&self.ctx.scratch, kind, prefix, tr) {
            Ok(b) => b,
            Err(e) => {
                rep.count("states_skipped_setup_diverges_from_model", 1);
                rep.note(&format!("a set-up history does not reach the model's state (C05's business), e.g. {}", vcore::util::clip(&e, 160)));
                return;
            }
        };
        let cands = self.cands[&kind].clone();
        for c in &cands {
            if c.needs_clean_t && tr.tomb_t {
                rep.count("candidates_skipped_tombstones", 1);
                continue;
            }
            if self.ctx.expired() {
                if !self.capped {
                    rep.capped("deadline");
                    self.capped = true;
                }
                return;
            }
            let model = c.stmt.apply(&mut tr.st.clone());
            let v = match eval(&self.ctx.scratch, kind, prefix, tr, c, &bl, self.plant, self.reps(kind, c)) {
                Ok(v) => v,
                Err(e) => {
                    rep.count("nondeterministic_setup", 1);
                    rep.note(&format!("set-up re-execution differed: {}", vcore::util::clip(&e, 160)));
                    continue;
                }
            };
            let names: Vec<String> = prefix.iter().map(|o| o.name()).collect();
            rep.case(vcore::util::hash_of(&(kind, &names, &c.name)), v.class == "err" || v.class == "panic");
            rep.add_transitions(1);
            rep.add_traces_validated(1);
            rep.count(&format!("cand:{}", c.skind), 1);
            let mclass = match &model {
                Ok(_) => "ok".to_string(),
                Err(e) => format!("err({})", e.class()),
            };
            rep.outcome(&format!("{}:{}:model-{}>{}", c.skind, c.thing, if model.is_ok() { "ok" } else { "err" }, v.class));
            match (model.is_ok(), v.class) {
                (false, "err") => rep.count(&format!("failing:{}:{}", c.skind, c.thing), 1),
                (false, "panic") => rep.count(&format!("panicking:{}:{}", c.skind, c.thing), 1),
                (false, _) => rep.count(&format!("wrongly_accepted(C09):{}:{}", c.skind, c.thing), 1),
                (true, "err") | (true, "panic") => rep.count(&format!("rejected_though_model_ok:{}:{}", c.skind, c.thing), 1),
                (true, _) => rep.count("candidate_not_failing_in_this_state", 1),
            }
            if v.class == "err" {
                let e = v.err_text.to_ascii_lowercase();
                let ec = ["primary key", "unique", "not null", "check", "foreign key", "not found", "not a variable column"].iter().find(|p| e.contains(**p)).copied().unwrap_or("other");
                rep.count(&format!("impl_err:{ec}"), 1);
            }
            if v.class == "err" || v.class == "panic" {
                rep.count("judged_failing_statements", 1);
                if c.skind == "delete-parent-cascade" && !tr.st.rows("ca").is_empty() && model.is_err() {
                    rep.count("judged_blocked_delete_with_rows_in_cascade_children", 1);
                }
                let k = if c.k == 0 { failing_position(tr, c) } else { c.k };
                rep.count(&format!("judged:k={k}"), 1);
                if v.changes.is_empty() {
                    rep.count("failing_statement_left_state_unchanged", 1);
                }
                for (what, exp, obs) in &v.changes {
                    let sig = signature(c, k, model.is_err(), what);
                    rep.count(&format!("changed:{what}"), 1);
                    let min = if self.minimised.insert(sig.clone()) { self.minimise(kind, prefix, c, &sig) } else { prefix.to_vec() };
                    rep.violation("C06", what, &sig, || case_json(kind, &min, c), &format!("{} fails ({}; model: {}) and leaves: {}", vcore::util::clip(&c.sql, 120), vcore::util::clip(&v.err_text, 80), mclass, exp), obs);
                }
            }
        }
    }

    fn explore(&mut self, rep: &mut Reporter) {
        let depth: usize = self.ctx.opt("depth").and_then(|d| d.parse().ok()).unwrap_or(self.ctx.tier.pick(3, 4));
        rep.bound("setup_depth", json!(depth));
        let only_kind = self.ctx.opt("kind").and_then(Kind::parse);
        let kinds = kinds(self.ctx.quick());
        let mut unit = 0u64;
        // breadth-first: shortest set-up histories first
        let mut levels: BTreeMap<Kind, Vec<(Vec<Op>, Track)>> = kinds.iter().map(|k| (*k, vec![(vec![], Track::new(*k))])).collect();
        for len in 0..=depth {
            for &kind in &kinds {
                if only_kind.map(|k| k != kind).unwrap_or(false) {
                    continue;
                }
                let level = levels.get(&kind).cloned().unwrap_or_default();
                rep.bound(&format!("states:{}:len{}", kind.name(), len), json!(level.len()));
                for (prefix, tr) in &level {
                    let mine = self.ctx.mine(unit);
                    unit += 1;
                    if mine && !self.capped {
                        self.state(rep, kind, prefix, tr);
                    }
                }
                if len < depth {
                    let mut next = vec![];
                    for (prefix, tr) in &level {
                        for op in tr.enabled() {
                            let mut p2 = prefix.clone();
                            p2.push(op);
                            let mut t2 = tr.clone();
                            t2.apply(op);
                            next.push((p2, t2));
                        }
                    }
                    levels.insert(kind, next);
                }
            }
        }
    }
}

struct C06;

impl Check for C06 {
    fn specs(&self) -> Vec<Spec> {
        let mut s = Spec::new(
            "C06",
            "model_checking",
            "a state is one set-up history (every sequence of <= D state-aware C05-style operations on the parent table t(PK, UNIQUE, NOT NULL, CHECK) and its FK child c, per schema kind: explicit ids / AUTO_INCREMENT), shortest first; a case (transition) is one failing candidate issued in that state on its own fresh database: 3-row INSERT whose k-th row violates PK / UNIQUE / NOT NULL / CHECK / FK or has a type error, INSERT/UPDATE naming a missing column or table, multi-row UPDATE violating UNIQUE / CHECK / NOT NULL / PK at some row, DELETE of referenced parents; kind uidx (uniqueness from CREATE UNIQUE INDEX ux ON t(a, b)): single-row / 3-row INSERT and UPDATE duplicating a pair; kind cascN (N ON DELETE CASCADE children + one RESTRICT child, all holding rows of the parent): DELETE of that parent, repeated on 3 (quick) / 4 (thorough) fresh databases because the child visiting order is a per-database HashMap order. Oracle: statement returned Err (or panicked) => both tables, COUNT(*), every PK/UNIQUE lookup and a destructive re-insert probe equal those of a twin database in the same state without the statement. Distinct = distinct (kind, history, candidate); non-trivial = the candidate returned Err or panicked (was judged).",
        );
        s.assumptions = &[
            "self-differential: only `Err => unchanged` is judged; whether the statement should have failed is classified with refmodel::sql::rel and only counted (C09)",
            "the unchanged state is taken from a twin database driven by the same set-up history (determinism of the set-up is checked on every run: the twin's tables must equal the model's)",
            "set-up alphabets avoid the C05 findings (no statement covers a tombstoned row); multi-row UPDATE / DELETE-all candidates are skipped in states with tombstones in t",
            "a value burnt from the AUTO_INCREMENT counter by a failed statement is reported under its own signature component `autoinc`",
            "kind cascN: TurDB iterates child tables in std HashMap order (random seed per Database); a defect that depends on a CASCADE child being visited before the RESTRICT child is missed by one candidate with probability (1/(N+1))^reps (3.7% quick, 0.16% thorough), but every state with a blocked parent repeats the experiment (replay uses 12 repetitions)",
        ];
        s.cap_quick_s = 90;
        s.cap_thorough_s = 1500;
        // development aid for a heavily shared machine: NAME_CAP_S=<seconds> lifts both deadlines
        if let Some(c) = std::env::var("C06_CAP_S").ok().and_then(|v| v.parse().ok()) {
            s.cap_quick_s = c;
            s.cap_thorough_s = c;
        }
        vec![s]
    }

    fn run(&self, ctx: &Ctx, rep: &mut Reporter) {
        for c in ["judged_failing_statements", "failing:insert3:pk", "failing:insert3:unique", "failing:insert3:notnull", "failing:insert3:check", "failing:insert3:type", "failing:insert3:missing-table", "failing:insert3-child:fk", "failing:update-multi:check", "failing:update-multi:notnull", "failing:delete-parent:fk", "judged:k=1", "judged:k=2", "judged:k=3", "explain_index_lookups", "failing:insert1:unique-index", "failing:insert3:unique-index", "failing:delete-parent-cascade:fk", "judged_blocked_delete_with_rows_in_cascade_children"] {
            rep.expect_nonzero(c);
        }
        // the lookups of the observation really go through the PK / UNIQUE indexes
        {
            let t = fresh_db(&ctx.scratch, "plan", Kind::Combo);
            for op in [Op::Ins(1), Op::Ins(2), Op::Ins(3)] {
                for st in op.stmts(Kind::Combo) {
                    let _ = t.exec(&st.to_sql());
                }
            }
            for q in ["SELECT * FROM t WHERE id = 2", "SELECT * FROM t WHERE u = 6", "SELECT * FROM c WHERE cid = 2"] {
                let p = explain(t.db(), q).unwrap_or_default();
                let cls = if p.contains("SecondaryIndexScan") { "SecondaryIndexScan" } else if p.contains("IndexScan") { "IndexScan" } else { "no-index" };
                rep.outcome(&format!("plan:{q}:{cls}"));
                if cls != "no-index" {
                    rep.count("explain_index_lookups", 1);
                }
            }
        }
        let cands = kinds(ctx.quick()).iter().map(|k| (*k, candidates(*k))).collect();
        let mut ex = Explorer { ctx, plant: Plant::from_ctx(ctx), cands, minimised: BTreeSet::new(), capped: false, replaying: false };
        ex.explore(rep);
    }

    fn replay(&self, ctx: &Ctx, case: &Value, rep: &mut Reporter) {
        let Some(kind) = case["kind"].as_str().and_then(Kind::parse) else {
            rep.note("replay: unknown kind");
            return;
        };
        let prefix: Vec<Op> = case["prefix"].as_array().map(|a| a.iter().filter_map(|x| x.as_str().and_then(|n| Op::parse(n, kind))).collect()).unwrap_or_default();
        let cands = candidates(kind);
        let Some(c) = cands.iter().find(|c| Some(c.name.as_str()) == case["candidate"].as_str()) else {
            rep.note("replay: unknown candidate");
            return;
        };
        let ex = Explorer { ctx, plant: Plant::from_ctx(ctx), cands: BTreeMap::new(), minimised: BTreeSet::new(), capped: false, replaying: true };
        let names: Vec<String> = prefix.iter().map(|o| o.name()).collect();
        rep.case(vcore::util::hash_of(&(kind, &names, &c.name)), true);
        rep.add_states(1);
        rep.add_transitions(1);
        rep.add_traces_validated(1);
        match ex.judge(kind, &prefix, c) {
            Ok((v, sigs)) => {
                for (sig, exp, obs) in sigs {
                    let what = sig.rsplit('/').next().unwrap_or("rows").to_string();
                    rep.violation("C06", &what, &sig, || case.clone(), &format!("{} fails ({}) and leaves: {}", vcore::util::clip(&c.sql, 120), vcore::util::clip(&v.err_text, 80), exp), &obs);
                }
            }
            Err(e) => rep.note(&format!("replay: set-up diverges from the model: {e}")),
        }
    }
}

fn main() {
    if std::env::var("C06_COUNT").is_ok() {
        for kind in kinds(false) {
            let mut level = vec![Track::new(kind)];
            let mut sizes = vec![1usize];
            for _ in 0..5 {
                let mut next = vec![];
                for tr in &level {
                    for op in tr.enabled() {
                        let mut t2 = tr.clone();
                        t2.apply(op);
                        next.push(t2);
                    }
                }
                sizes.push(next.len());
                level = next;
            }
            println!("{} states per set-up length 0..5: {:?}; candidates: {}", kind.name(), sizes, candidates(kind).len());
        }
        return;
    }
    vcore::main(&C06)
}
