//! C27 — varints round-trip with canonical length (exhaustive input enumeration).
use checks::guard::GuardBuf;
use turdb::encoding::varint::{decode_varint, encode_varint, varint_len};
use vcore::{json, Check, Ctx, Reporter, Spec, Value};

struct C27;

/// Independent statement of the format (README/module doc table), used as oracle.
fn spec_len(v: u64) -> usize {
    match v {
        0..=240 => 1,
        241..=2287 => 2,
        2288..=67823 => 3,
        67824..=0xFF_FFFF => 4,
        0x100_0000..=0xFFFF_FFFF => 5,
        _ => 9,
    }
}

fn check_value(v: u64, gb: &mut GuardBuf, rep: &mut Reporter) {
    let want = spec_len(v);
    let l = varint_len(v);
    let fail = |rep: &mut Reporter, what: &str, exp: String, obs: String| {
        rep.violation("C27", "roundtrip", &format!("C27/value/{}/len{}", what, want), || json!({"kind":"value","v":v.to_string()}), &exp, &obs);
    };
    if l != want {
        fail(rep, "varint_len", format!("{want}"), format!("{l}"));
        return;
    }
    // encode into a buffer of exactly `l` bytes that ends at a guard page,
    // preceded by sentinel bytes: nothing outside may be written.
    let buf = gb.tail(l + 8);
    for b in buf[..8].iter_mut() {
        *b = 0xA5;
    }
    let n = match vcore::catch(|| encode_varint(v, &mut buf[8..])) {
        Ok(n) => n,
        Err(p) => {
            fail(rep, "encode-panic", "no panic".into(), p);
            return;
        }
    };
    if n != l {
        fail(rep, "encode-return", format!("{l}"), format!("{n}"));
        return;
    }
    if buf[..8].iter().any(|b| *b != 0xA5) {
        fail(rep, "encode-wrote-before-buffer", "sentinel intact".into(), "sentinel overwritten".into());
        return;
    }
    let enc: Vec<u8> = buf[8..].to_vec();
    let placed = gb.place(&enc);
    match vcore::catch(|| decode_varint(placed).map_err(|e| e.to_string())) {
        Ok(Ok((dv, dn))) => {
            if dv != v || dn != l {
                fail(rep, "decode-mismatch", format!("({v},{l})"), format!("({dv},{dn})"));
            }
        }
        Ok(Err(e)) => fail(rep, "decode-error", format!("Ok(({v},{l}))"), e),
        Err(p) => fail(rep, "decode-panic", "no panic".into(), p),
    }
    // every proper prefix of the encoding must be rejected (canonical length)
    for cut in 0..l {
        let placed = gb.place(&enc[..cut]);
        match vcore::catch(|| decode_varint(placed).map(|x| x).map_err(|e| e.to_string())) {
            Ok(Err(_)) => {}
            Ok(Ok((dv, dn))) => {
                if dn > cut {
                    fail(rep, "prefix-consumed-more-than-input", format!("Err or consumed<={cut}"), format!("({dv},{dn})"));
                } else if cut > 0 && l > 1 {
                    // a strict prefix of a multi-byte encoding decoding successfully means the marker byte lied
                    fail(rep, "prefix-accepted", "Err".into(), format!("Ok(({dv},{dn})) on {cut}-byte prefix"));
                }
            }
            Err(p) => fail(rep, "prefix-panic", "no panic".into(), p),
        }
    }
}

/// `bytes`: arbitrary byte string at the guard page.
fn check_bytes(bytes: &[u8], gb: &mut GuardBuf, rep: &mut Reporter) {
    let placed = gb.place(bytes);
    let r = vcore::catch(|| decode_varint(placed).map_err(|e| e.to_string()));
    let case = || json!({"kind":"bytes","hex":vcore::util::hex(bytes)});
    match r {
        Err(p) => rep.violation("C27", "decode-total", "C27/bytes/panic", case, "Ok or Err", &p),
        Ok(Err(_)) => {}
        Ok(Ok((v, n))) => {
            if n == 0 || n > bytes.len() {
                rep.violation("C27", "decode-total", "C27/bytes/consumed-out-of-range", case, &format!("1..={}", bytes.len()), &format!("{n}"));
                return;
            }
            // decode ∘ encode consistency: re-encoding the value gives a
            // canonical encoding that decodes to the same value
            let mut tmp = [0u8; 9];
            let m = encode_varint(v, &mut tmp);
            match decode_varint(&tmp[..m]) {
                Ok((v2, m2)) if v2 == v && m2 == m => {}
                other => rep.violation("C27", "decode-total", "C27/bytes/reencode-mismatch", case, &format!("({v},{m})"), &format!("{:?}", other.map_err(|e| e.to_string()))),
            }
        }
    }
}

fn value_blocks(ctx: &Ctx) -> (u64, u64) {
    // values are enumerated in blocks of 2^16: (number of dense blocks, stride sweep limit)
    let dense_limit: u64 = if ctx.quick() { 1 << 22 } else { 1u64 << 29 };
    (dense_limit >> 16, (1u64 << 32) + (1 << 16))
}

impl Check for C27 {
    fn specs(&self) -> Vec<Spec> {
        let mut s = Spec::new(
            "C27",
            "exploration",
            "every u64 value of a dense range (quick: [0,2^22), thorough: [0,2^29)) enumerated once, plus stride-1021 sweep to 2^32+2^16, all 2^k±{0..2}, and byte sweeps of the 9-byte class; every byte string of length<=3 over all 256 values and length 4..9 with first byte 0..255 x rest over a boundary set, each placed at a guard page. A case is one value or one byte string; all enumerated cases are pairwise distinct by construction and all exercise encode/decode (non-trivial).",
        );
        s.assumptions = &["the u64 values above 2^32+2^16 share one code path (marker 255 + 8 BE bytes); they are covered by byte sweeps and powers of two, not densely (the 'by proof' clause of the property is outside bounded enumeration)"];
        s.crash_is_verdict = true;
        s.cap_quick_s = 100;
        s.cap_thorough_s = 1500;
        vec![s]
    }

    fn run(&self, ctx: &Ctx, rep: &mut Reporter) {
        let mut gb = GuardBuf::new(64);
        let (dense_blocks, sweep_limit) = value_blocks(ctx);
        rep.bound("dense_values_below", json!((dense_blocks << 16).to_string()));
        rep.sample(|| json!({"kind":"value","v":"2287"}));
        rep.sample(|| json!({"kind":"bytes","hex":"f9ff"}));
        // 1. dense blocks
        for b in 0..dense_blocks {
            if !ctx.mine(b) {
                continue;
            }
            if ctx.expired() {
                rep.capped("deadline in dense value sweep");
                break;
            }
            rep.begin_case(&format!("{{\"kind\":\"value-block\",\"block\":{b}}}"));
            let lo = b << 16;
            for v in lo..lo + (1 << 16) {
                check_value(v, &mut gb, rep);
            }
            rep.bulk(1 << 16, 1 << 16);
        }
        rep.count("dense_blocks_done", 0);
        // 2. stride sweep from the end of the dense range to 2^32+2^16
        {
            let mut i = 0u64;
            let mut v = dense_blocks << 16;
            let mut n = 0;
            while v < sweep_limit {
                if ctx.mine(i >> 12) {
                    check_value(v, &mut gb, rep);
                    n += 1;
                }
                v += 1021;
                i += 1;
            }
            rep.bulk(n, n);
        }
        // 3. powers of two ± d, class boundaries ± d
        if ctx.worker == 0 {
            let mut vals = std::collections::BTreeSet::new();
            for k in 0..64 {
                for d in 0..3u64 {
                    vals.insert((1u64 << k).wrapping_add(d));
                    vals.insert((1u64 << k).wrapping_sub(d));
                }
            }
            for b in [240u64, 241, 2287, 2288, 67823, 67824, 0xFF_FFFF, 0x100_0000, 0xFFFF_FFFF, 0x1_0000_0000, u64::MAX] {
                for d in 0..3u64 {
                    vals.insert(b.wrapping_add(d));
                    vals.insert(b.wrapping_sub(d));
                }
            }
            // exclude what the dense range already covered to keep the distinct count exact
            let dense_lim = dense_blocks << 16;
            let mut n = 0;
            for v in vals {
                if v < dense_lim || (v >= dense_lim && v < sweep_limit && (v - dense_lim) % 1021 == 0) {
                    continue;
                }
                check_value(v, &mut gb, rep);
                n += 1;
            }
            rep.bulk(n, n);
            rep.count("boundary_values", n);
        }
        // 4. 9-byte class: one byte swept over each of 6 backgrounds
        if ctx.worker == 1 % ctx.workers {
            let mut seen = std::collections::BTreeSet::new();
            for bg in [0u64, u64::MAX, 0x0101010101010101, 0x8080808080808080, 0x7F7F7F7F7F7F7F7F, 0xFEDCBA9876543210] {
                for pos in 0..8 {
                    for x in 0..=255u64 {
                        let v = (bg & !(0xFFu64 << (8 * pos))) | (x << (8 * pos));
                        if v >= sweep_limit && seen.insert(v) {
                            check_value(v, &mut gb, rep);
                        }
                    }
                }
            }
            // may overlap with powers of two of step 3: count as evaluations, distinct only if not a 2^k±d
            let n = seen.len() as u64;
            let dup = seen.iter().filter(|v| (0..64).any(|k| (0..3u64).any(|d| **v == (1u64 << k).wrapping_add(d) || **v == (1u64 << k).wrapping_sub(d))) || **v >= u64::MAX - 2).count() as u64;
            rep.bulk(n, n - dup);
            rep.count("nine_byte_sweep_values", n);
        }
        // 5. byte strings: all of length <= 3 (quick: length 3 restricted to
        // first byte 0..255 x {all} x boundary set), length 4..9 reduced alphabet
        let rest_set: &[u8] = if ctx.quick() { &[0x00, 0xFF] } else { &[0x00, 0x01, 0x7F, 0x80, 0xFE, 0xFF] };
        let mut idx = 0u64;
        let mut nb = 0u64;
        // length 0
        if ctx.worker == 0 {
            check_bytes(&[], &mut gb, rep);
            nb += 1;
        }
        for b0 in 0..=255u8 {
            idx += 1;
            if !ctx.mine(idx) {
                continue;
            }
            rep.begin_case(&format!("{{\"kind\":\"bytes-first\",\"b0\":{b0}}}"));
            check_bytes(&[b0], &mut gb, rep);
            nb += 1;
            for b1 in 0..=255u8 {
                check_bytes(&[b0, b1], &mut gb, rep);
                nb += 1;
                for b2 in 0..=255u8 {
                    check_bytes(&[b0, b1, b2], &mut gb, rep);
                    nb += 1;
                }
            }
            for len in 4..=9usize {
                let k = len - 1;
                let total = (rest_set.len() as u64).pow(k as u32);
                let mut bytes = vec![b0; len];
                for code in 0..total {
                    let mut c = code;
                    for j in 0..k {
                        bytes[1 + j] = rest_set[(c % rest_set.len() as u64) as usize];
                        c /= rest_set.len() as u64;
                    }
                    check_bytes(&bytes, &mut gb, rep);
                    nb += 1;
                }
            }
        }
        rep.bulk(nb, nb);
        rep.count("byte_strings", nb);
        rep.expect_nonzero("byte_strings");
    }

    fn replay(&self, _ctx: &Ctx, case: &Value, rep: &mut Reporter) {
        let mut gb = GuardBuf::new(64);
        match case["kind"].as_str() {
            Some("value") => {
                let v: u64 = case["v"].as_str().and_then(|s| s.parse().ok()).unwrap_or(0);
                check_value(v, &mut gb, rep);
                rep.bulk(1, 1);
            }
            Some("bytes") => {
                let b = vcore::util::unhex(case["hex"].as_str().unwrap_or(""));
                check_bytes(&b, &mut gb, rep);
                rep.bulk(1, 1);
            }
            Some("value-block") => {
                let b = case["block"].as_u64().unwrap_or(0);
                for v in (b << 16)..(b << 16) + (1 << 16) {
                    check_value(v, &mut gb, rep);
                }
                rep.bulk(1 << 16, 1 << 16);
            }
            Some("bytes-first") => {
                let b0 = case["b0"].as_u64().unwrap_or(0) as u8;
                for b1 in 0..=255u8 {
                    for b2 in 0..=255u8 {
                        check_bytes(&[b0, b1, b2], &mut gb, rep);
                    }
                }
                rep.bulk(65536, 65536);
            }
            _ => vcore::machinery("C27: unknown case kind"),
        }
    }
}

fn main() {
    vcore::main(&C27)
}
