//! CRASH engine — C01 (acknowledged writes survive a crash), C02 (recovery is
//! prefix-consistent), C40 (catalog survives crashes during DDL).
//!
//! A workload (a few units = autocommit statements or BEGIN…COMMIT groups) runs
//! once, in-process, on a real `Database` under /dev/shm.  Every page mutation
//! (`MmapStorage::page_mut`/`grow` hook), every intercepted write / pwrite /
//! ftruncate / rename / unlink / fsync / fdatasync / msync on a file of the
//! database directory, and every statement boundary is an *event*.  At every
//! event two images of the directory are recorded:
//!   kill image    = every file as it is (what a SIGKILL leaves: MAP_SHARED
//!                   stores and completed write()s, not BufWriter contents);
//!   durable image = per file, the bytes last made durable by fsync/fdatasync
//!                   (whole file) or msync (that range); creation, deletion and
//!                   renaming of files are taken as durable when issued.
//! Crash states = kill image at every event + power-loss images at every event
//! (strict: only durable bytes, file length as of the last sync; lenient:
//! current length, and every subset of the 16 KiB blocks that differ between
//! kill and durable image kept — all subsets when few, a covering family
//! otherwise).  Every distinct state is reopened with the real
//! `Database::open` and observed; oracles per property below.
use checks::sqlh::*;
use refmodel::val::{Row, V};
use std::collections::{BTreeMap, BTreeSet, HashMap};
use std::os::unix::fs::MetadataExt;
use std::path::{Path, PathBuf};
use std::sync::atomic::{AtomicBool, AtomicU64, Ordering};
use std::sync::{Arc, Mutex};
use vcore::{json, Check, Ctx, Reporter, Spec, Value};

// ------------------------------------------------------------------ interposers
static ACTIVE: AtomicBool = AtomicBool::new(false);
static HITS: [AtomicU64; 8] = [AtomicU64::new(0), AtomicU64::new(0), AtomicU64::new(0), AtomicU64::new(0), AtomicU64::new(0), AtomicU64::new(0), AtomicU64::new(0), AtomicU64::new(0)];
thread_local! { static IN_HOOK: std::cell::Cell<bool> = std::cell::Cell::new(false); }

#[derive(Clone, Debug)]
enum Sys {
    Write(i32),
    Truncate(i32),
    Fsync(i32),
    Msync(usize, usize),
    Rename,
    Unlink,
    PageMut(i32, u32, u8),
    Stmt(String),
}

/// While a "bulk" unit (hundreds of statements) runs, only syscalls and unit boundaries are
/// events; page mutations and statement ends are not (they would be thousands of near-identical
/// images).  The interesting crash points of such a unit are the log writes and syncs.
static COARSE: AtomicBool = AtomicBool::new(false);

fn hook(ev: Sys) {
    if !ACTIVE.load(Ordering::Relaxed) {
        return;
    }
    if COARSE.load(Ordering::Relaxed) {
        match &ev {
            Sys::PageMut(..) => return,
            Sys::Stmt(s) if s.starts_with("stmt-end") => return,
            _ => {}
        }
    }
    let re = IN_HOOK.with(|h| h.replace(true));
    if re {
        return;
    }
    if let Some(r) = RECORDER.lock().unwrap().as_mut() {
        r.on_event(ev);
    }
    IN_HOOK.with(|h| h.set(false));
}

#[no_mangle]
pub unsafe extern "C" fn write(fd: libc::c_int, buf: *const libc::c_void, n: libc::size_t) -> libc::ssize_t {
    let r = libc::syscall(libc::SYS_write, fd, buf, n) as libc::ssize_t;
    HITS[0].fetch_add(1, Ordering::Relaxed);
    if fd > 2 {
        hook(Sys::Write(fd));
    }
    r
}
#[no_mangle]
pub unsafe extern "C" fn pwrite64(fd: libc::c_int, buf: *const libc::c_void, n: libc::size_t, off: libc::off64_t) -> libc::ssize_t {
    let r = libc::syscall(libc::SYS_pwrite64, fd, buf, n, off) as libc::ssize_t;
    HITS[1].fetch_add(1, Ordering::Relaxed);
    hook(Sys::Write(fd));
    r
}
#[no_mangle]
pub unsafe extern "C" fn ftruncate64(fd: libc::c_int, len: libc::off64_t) -> libc::c_int {
    let r = libc::syscall(libc::SYS_ftruncate, fd, len) as libc::c_int;
    HITS[2].fetch_add(1, Ordering::Relaxed);
    hook(Sys::Truncate(fd));
    r
}
#[no_mangle]
pub unsafe extern "C" fn ftruncate(fd: libc::c_int, len: libc::off_t) -> libc::c_int {
    let r = libc::syscall(libc::SYS_ftruncate, fd, len) as libc::c_int;
    HITS[2].fetch_add(1, Ordering::Relaxed);
    hook(Sys::Truncate(fd));
    r
}
#[no_mangle]
pub unsafe extern "C" fn fsync(fd: libc::c_int) -> libc::c_int {
    let r = libc::syscall(libc::SYS_fsync, fd) as libc::c_int;
    HITS[3].fetch_add(1, Ordering::Relaxed);
    hook(Sys::Fsync(fd));
    r
}
#[no_mangle]
pub unsafe extern "C" fn fdatasync(fd: libc::c_int) -> libc::c_int {
    let r = libc::syscall(libc::SYS_fdatasync, fd) as libc::c_int;
    HITS[4].fetch_add(1, Ordering::Relaxed);
    hook(Sys::Fsync(fd));
    r
}
#[no_mangle]
pub unsafe extern "C" fn msync(addr: *mut libc::c_void, len: libc::size_t, flags: libc::c_int) -> libc::c_int {
    let r = libc::syscall(libc::SYS_msync, addr, len, flags) as libc::c_int;
    HITS[5].fetch_add(1, Ordering::Relaxed);
    if flags & libc::MS_SYNC != 0 {
        hook(Sys::Msync(addr as usize, len));
    }
    r
}
#[no_mangle]
pub unsafe extern "C" fn rename(old: *const libc::c_char, new: *const libc::c_char) -> libc::c_int {
    let r = libc::syscall(libc::SYS_rename, old, new) as libc::c_int;
    HITS[6].fetch_add(1, Ordering::Relaxed);
    hook(Sys::Rename);
    r
}
#[no_mangle]
pub unsafe extern "C" fn unlink(p: *const libc::c_char) -> libc::c_int {
    let r = libc::syscall(libc::SYS_unlink, p) as libc::c_int;
    HITS[7].fetch_add(1, Ordering::Relaxed);
    hook(Sys::Unlink);
    r
}

fn page_mut_hook(fd: i32, page_no: u32, kind: u8) {
    hook(Sys::PageMut(fd, page_no, kind));
}

/// Fails (machinery error) if std / memmap2 file I/O does not go through the interposers.
fn interposer_self_test(scratch: &Path) {
    use std::io::Write;
    let before: Vec<u64> = HITS.iter().map(|h| h.load(Ordering::Relaxed)).collect();
    let p = scratch.join("selftest.bin");
    {
        let mut f = std::fs::File::create(&p).expect("selftest create");
        f.write_all(&[1u8; 100]).unwrap();
        f.sync_all().unwrap();
        f.sync_data().unwrap();
        f.set_len(16384 * 2).unwrap();
    }
    {
        let mut s = turdb::storage::MmapStorage::open(&p).expect("selftest mmap");
        s.page_mut(0).unwrap()[0] = 7;
        s.sync().unwrap();
    }
    let p2 = scratch.join("selftest2.bin");
    std::fs::rename(&p, &p2).unwrap();
    std::fs::remove_file(&p2).unwrap();
    let names = ["write", "pwrite64", "ftruncate", "fsync", "fdatasync", "msync", "rename", "unlink"];
    for (i, n) in names.iter().enumerate() {
        if i == 1 {
            continue; // pwrite is not used by std::fs::File::write_all
        }
        if HITS[i].load(Ordering::Relaxed) == before[i] {
            vcore::machinery(&format!("interposer self-test: {n} issued through std/memmap2 was not intercepted"));
        }
    }
}

// ------------------------------------------------------------------ recorder
type Hash = u64;

#[derive(Clone, Debug)]
struct FileImg {
    rel: String,
    kill: Hash,
    durable: Hash,
    /// length of the durable image (strict policy)
    durable_len: u64,
    kill_len: u64,
}

#[derive(Clone, Debug)]
struct Event {
    label: String,
    /// number of units fully acknowledged before this event
    acked: usize,
    /// unit in flight (started, not yet acknowledged)
    in_flight: Option<usize>,
    files: Vec<FileImg>,
}

struct Recorder {
    dir: PathBuf,
    store: HashMap<Hash, Arc<Vec<u8>>>,
    /// inode -> durable bytes (length = durable length)
    durable: HashMap<u64, Arc<Vec<u8>>>,
    events: Vec<Event>,
    acked: usize,
    in_flight: Option<usize>,
    counts: BTreeMap<String, u64>,
}

static RECORDER: Mutex<Option<Recorder>> = Mutex::new(None);

fn fd_path(fd: i32) -> Option<PathBuf> {
    std::fs::read_link(format!("/proc/self/fd/{fd}")).ok()
}

fn list_files(dir: &Path, base: &Path, out: &mut Vec<(String, PathBuf)>) {
    if let Ok(rd) = std::fs::read_dir(dir) {
        let mut es: Vec<_> = rd.filter_map(|e| e.ok()).collect();
        es.sort_by_key(|e| e.file_name());
        for e in es {
            let p = e.path();
            if p.is_dir() {
                list_files(&p, base, out);
            } else {
                out.push((p.strip_prefix(base).unwrap().to_string_lossy().to_string(), p));
            }
        }
    }
}

impl Recorder {
    fn put(&mut self, bytes: Vec<u8>) -> Hash {
        let h = vcore::util::hash_bytes(&bytes) ^ (bytes.len() as u64).rotate_left(17);
        self.store.entry(h).or_insert_with(|| Arc::new(bytes));
        h
    }
    fn on_event(&mut self, ev: Sys) {
        let label = match &ev {
            Sys::Write(fd) | Sys::Truncate(fd) | Sys::Fsync(fd) => {
                let Some(p) = fd_path(*fd) else { return };
                if !p.starts_with(&self.dir) {
                    return;
                }
                let rel = p.strip_prefix(&self.dir).unwrap().to_string_lossy().to_string();
                match ev {
                    Sys::Write(_) => format!("write {rel}"),
                    Sys::Truncate(_) => format!("truncate {rel}"),
                    _ => {
                        // whole file becomes durable
                        if let (Ok(bytes), Ok(md)) = (std::fs::read(&p), std::fs::metadata(&p)) {
                            self.durable.insert(md.ino(), Arc::new(bytes));
                        }
                        format!("fsync {rel}")
                    }
                }
            }
            Sys::Msync(addr, len) => {
                // which file backs this mapping?
                let Some((path, file_off)) = mapping_of(*addr) else { return };
                if !path.starts_with(&self.dir) {
                    return;
                }
                let rel = path.strip_prefix(&self.dir).unwrap().to_string_lossy().to_string();
                if let (Ok(bytes), Ok(md)) = (std::fs::read(&path), std::fs::metadata(&path)) {
                    let lo = file_off as usize;
                    let hi = (lo + *len).min(bytes.len());
                    let cur = self.durable.get(&md.ino()).map(|a| a.as_ref().clone()).unwrap_or_default();
                    let mut d = cur;
                    if d.len() < hi {
                        d.resize(hi, 0);
                    }
                    if lo < hi {
                        d[lo..hi].copy_from_slice(&bytes[lo..hi]);
                    }
                    self.durable.insert(md.ino(), Arc::new(d));
                }
                format!("msync {rel}")
            }
            Sys::Rename => "rename".to_string(),
            Sys::Unlink => "unlink".to_string(),
            Sys::PageMut(fd, page, kind) => {
                let Some(p) = fd_path(*fd) else { return };
                if !p.starts_with(&self.dir) {
                    return;
                }
                let rel = p.strip_prefix(&self.dir).unwrap().to_string_lossy().to_string();
                if *kind == 1 {
                    format!("grow {rel} to {page}")
                } else {
                    format!("page_mut {rel}#{page}")
                }
            }
            Sys::Stmt(s) => s.clone(),
        };
        let kind = label.split(' ').next().unwrap_or("").to_string();
        *self.counts.entry(kind).or_insert(0) += 1;
        self.snapshot(label);
    }
    fn snapshot(&mut self, label: String) {
        let mut files = Vec::new();
        let mut listing = Vec::new();
        let dir = self.dir.clone();
        list_files(&dir, &dir, &mut listing);
        for (rel, p) in listing {
            let (Ok(bytes), Ok(md)) = (std::fs::read(&p), std::fs::metadata(&p)) else { continue };
            let kill_len = bytes.len() as u64;
            let d = self.durable.get(&md.ino()).cloned().unwrap_or_else(|| Arc::new(Vec::new()));
            let durable_len = d.len() as u64;
            let kill = self.put(bytes);
            let durable = self.put(d.as_ref().clone());
            files.push(FileImg { rel, kill, durable, durable_len, kill_len });
        }
        self.events.push(Event { label, acked: self.acked, in_flight: self.in_flight, files });
    }
}

fn mapping_of(addr: usize) -> Option<(PathBuf, u64)> {
    let maps = std::fs::read_to_string("/proc/self/maps").ok()?;
    for l in maps.lines() {
        let mut it = l.split_whitespace();
        let range = it.next()?;
        let _perms = it.next()?;
        let off = it.next()?;
        let _dev = it.next()?;
        let _ino = it.next()?;
        let path = it.next().unwrap_or("");
        let (lo, hi) = range.split_once('-')?;
        let lo = usize::from_str_radix(lo, 16).ok()?;
        let hi = usize::from_str_radix(hi, 16).ok()?;
        if addr >= lo && addr < hi && path.starts_with('/') {
            let off = u64::from_str_radix(off, 16).ok()?;
            return Some((PathBuf::from(path), off + (addr - lo) as u64));
        }
    }
    None
}

// ------------------------------------------------------------------ workloads
#[derive(Clone, Debug)]
struct Unit {
    stmts: Vec<String>,
    /// short kind for signatures: insert | update | delete | txn-insert-update | create-table | create-index | checkpoint | …
    kind: &'static str,
    /// (table, key) facts this unit changes; key None = whole table (DDL / all rows)
    touches: Vec<(&'static str, Option<i64>)>,
}
fn u1(kind: &'static str, sql: &str, touches: Vec<(&'static str, Option<i64>)>) -> Unit {
    Unit { stmts: vec![sql.to_string()], kind, touches }
}
fn txn(kind: &'static str, sqls: &[&str], touches: Vec<(&'static str, Option<i64>)>) -> Unit {
    let mut v = vec!["BEGIN".to_string()];
    v.extend(sqls.iter().map(|s| s.to_string()));
    v.push("COMMIT".to_string());
    Unit { stmts: v, kind, touches }
}

#[derive(Clone, Debug)]
struct Workload {
    name: &'static str,
    /// executed before recording starts (not crash-tested)
    setup: Vec<String>,
    units: Vec<Unit>,
    /// tables to observe: (name, key domain, indexed column probes `col = v`)
    tables: Vec<(&'static str, Vec<i64>, Vec<(&'static str, Vec<i64>)>)>,
}

fn pragmas() -> Vec<String> {
    vec!["PRAGMA wal=ON".to_string(), "PRAGMA synchronous=FULL".to_string()]
}

fn workloads(property: &str, quick: bool) -> Vec<Workload> {
    let big = "x".repeat(900);
    let mut w = Vec::new();
    if property == "C40" {
        // DDL workloads: crash inside catalog / meta rewrites
        let mut setup = pragmas();
        setup.push("CREATE TABLE base (id INT PRIMARY KEY, a INT)".into());
        setup.push("CREATE INDEX base_a ON base(a)".into());
        setup.push("INSERT INTO base VALUES (1, 10)".into());
        setup.push("INSERT INTO base VALUES (2, 20)".into());
        w.push(Workload {
            name: "ddl",
            setup,
            units: vec![
                u1("create-table", "CREATE TABLE t2 (id INT PRIMARY KEY, b TEXT)", vec![("t2", None)]),
                u1("insert", "INSERT INTO t2 VALUES (1, 'one')", vec![("t2", Some(1))]),
                u1("create-index", "CREATE INDEX t2_b ON t2(b)", vec![("t2", None)]),
                u1("add-column", "ALTER TABLE t2 ADD COLUMN c INT", vec![("t2", None)]),
                u1("create-table", "CREATE TABLE t3 (id INT PRIMARY KEY)", vec![("t3", None)]),
                u1("drop-table", "DROP TABLE t3", vec![("t3", None)]),
                u1("drop-index", "DROP INDEX t2_b", vec![("t2", None)]),
            ],
            tables: vec![("base", vec![1, 2], vec![("a", vec![10, 20])]), ("t2", vec![1], vec![])],
        });
        return w;
    }
    let t_setup = |extra: &[&str]| {
        let mut s = pragmas();
        s.push("CREATE TABLE t (id INT PRIMARY KEY, a INT)".into());
        for e in extra {
            s.push(e.to_string());
        }
        s
    };
    // W1: autocommit DML on a PK table
    w.push(Workload {
        name: "w1-autocommit-dml",
        setup: t_setup(&[]),
        units: vec![
            u1("insert", "INSERT INTO t VALUES (1, 10)", vec![("t", Some(1))]),
            u1("insert", "INSERT INTO t VALUES (2, 20)", vec![("t", Some(2))]),
            u1("update", "UPDATE t SET a = 11 WHERE id = 1", vec![("t", Some(1))]),
            u1("delete", "DELETE FROM t WHERE id = 2", vec![("t", Some(2))]),
            u1("insert", "INSERT INTO t VALUES (3, 30)", vec![("t", Some(3))]),
        ],
        tables: vec![("t", vec![1, 2, 3], vec![])],
    });
    // W2: explicit transactions
    w.push(Workload {
        name: "w2-transactions",
        setup: t_setup(&["INSERT INTO t VALUES (1, 10)"]),
        units: vec![
            txn("txn-insert-update", &["INSERT INTO t VALUES (2, 20)", "UPDATE t SET a = 11 WHERE id = 1"], vec![("t", Some(1)), ("t", Some(2))]),
            u1("insert", "INSERT INTO t VALUES (3, 30)", vec![("t", Some(3))]),
            txn("txn-delete-insert", &["DELETE FROM t WHERE id = 3", "INSERT INTO t VALUES (4, 40)"], vec![("t", Some(3)), ("t", Some(4))]),
        ],
        tables: vec![("t", vec![1, 2, 3, 4], vec![])],
    });
    // W10: a transaction that dirties more pages than COMMIT_BATCH_SIZE (16), so COMMIT takes the
    // chunked log path, and that also rewrites a page whose older image is already in the log
    // (a frame that is acknowledged but not durable lets replay put the older image back).
    {
        let mut s = pragmas();
        s.push("CREATE TABLE big (id INT PRIMARY KEY, payload TEXT)".into());
        s.push("CREATE TABLE small (id INT PRIMARY KEY, note TEXT)".into());
        let payload = "p".repeat(880);
        let mut stmts: Vec<String> = vec!["BEGIN".into()];
        for k in 1..=420i64 {
            stmts.push(format!("INSERT INTO big VALUES ({k}, '{payload}')"));
        }
        stmts.push("INSERT INTO small VALUES (2, 'in-txn')".into());
        stmts.push("COMMIT".into());
        w.push(Workload {
            name: "w10-chunked-commit",
            setup: s,
            units: vec![
                u1("insert", "INSERT INTO small VALUES (1, 'autocommit')", vec![("small", Some(1))]),
                Unit { stmts, kind: "txn-bulk", touches: vec![("big", None), ("small", Some(2))] },
                u1("insert", "INSERT INTO small VALUES (3, 'after')", vec![("small", Some(3))]),
            ],
            tables: vec![("small", vec![1, 2, 3], vec![]), ("big", vec![1, 210, 420], vec![])],
        });
    }
    // W11: TOAST rows written by a transaction (COMMIT logs the TOAST leaf) and then by autocommit
    // statements on the same TOAST leaf: an autocommit statement that does not log its TOAST pages
    // lets replay put the older leaf image back (row pointer without its chunks).
    {
        let mut s = pragmas();
        s.push("CREATE TABLE t (id INT PRIMARY KEY, a TEXT)".into());
        w.push(Workload {
            name: "w11-toast-txn-then-autocommit",
            setup: s,
            units: vec![
                txn("txn-insert-toast", &[&format!("INSERT INTO t VALUES (1, '{}')", "m".repeat(1500))], vec![("t", Some(1))]),
                u1("insert-toast", &format!("INSERT INTO t VALUES (2, '{}')", "n".repeat(1600)), vec![("t", Some(2))]),
                u1("insert-toast", &format!("INSERT INTO t VALUES (3, '{}')", "o".repeat(5000)), vec![("t", Some(3))]),
                u1("insert", "INSERT INTO t VALUES (4, 'inline')", vec![("t", Some(4))]),
            ],
            tables: vec![("t", vec![1, 2, 3, 4], vec![])],
        });
    }
    // W4: checkpoints between statements
    w.push(Workload {
        name: "w4-checkpoint",
        setup: t_setup(&["INSERT INTO t VALUES (1, 10)"]),
        units: vec![
            u1("insert", "INSERT INTO t VALUES (2, 20)", vec![("t", Some(2))]),
            u1("checkpoint", "PRAGMA wal_checkpoint", vec![]),
            u1("update", "UPDATE t SET a = 21 WHERE id = 2", vec![("t", Some(2))]),
            txn("txn-insert", &["INSERT INTO t VALUES (3, 30)"], vec![("t", Some(3))]),
            u1("checkpoint", "PRAGMA wal_checkpoint", vec![]),
        ],
        tables: vec![("t", vec![1, 2, 3], vec![])],
    });
    {
        // W3: secondary index created between inserts
        w.push(Workload {
            name: "w3-secondary-index",
            setup: t_setup(&["INSERT INTO t VALUES (1, 10)"]),
            units: vec![
                u1("create-index", "CREATE INDEX t_a ON t(a)", vec![("t", None)]),
                u1("insert", "INSERT INTO t VALUES (2, 20)", vec![("t", Some(2))]),
                u1("update", "UPDATE t SET a = 12 WHERE id = 1", vec![("t", Some(1))]),
                txn("txn-insert", &["INSERT INTO t VALUES (3, 30)"], vec![("t", Some(3))]),
            ],
            tables: vec![("t", vec![1, 2, 3], vec![("a", vec![10, 12, 20, 30])])],
        });
    }
    {
        // W5: DDL mixed with DML
        w.push(Workload {
            name: "w5-ddl",
            setup: pragmas(),
            units: vec![
                u1("create-table", "CREATE TABLE t (id INT PRIMARY KEY, a INT)", vec![("t", None)]),
                u1("insert", "INSERT INTO t VALUES (1, 10)", vec![("t", Some(1))]),
                u1("create-table", "CREATE TABLE u (id INT PRIMARY KEY, b INT)", vec![("u", None)]),
                u1("insert", "INSERT INTO u VALUES (1, 100)", vec![("u", Some(1))]),
                u1("add-column", "ALTER TABLE t ADD COLUMN c INT", vec![("t", None)]),
                u1("drop-table", "DROP TABLE u", vec![("u", None)]),
            ],
            tables: vec![("t", vec![1], vec![]), ("u", vec![1], vec![])],
        });
    }
    if !quick {
        // W6: inserts that split the root leaf (18 rows x ~900 bytes > 16 KiB)
        let mut units = Vec::new();
        for k in 1..=20i64 {
            units.push(u1("insert-wide", &format!("INSERT INTO t VALUES ({k}, '{big}{k}')"), vec![("t", Some(k))]));
        }
        let mut s = pragmas();
        s.push("CREATE TABLE t (id INT PRIMARY KEY, a TEXT)".into());
        w.push(Workload { name: "w6-leaf-split", setup: s, units, tables: vec![("t", (1..=20).collect(), vec![])] });
    }
    {
        // W7: TOAST rows
        let mut s = pragmas();
        s.push("CREATE TABLE t (id INT PRIMARY KEY, a TEXT)".into());
        w.push(Workload {
            name: "w7-toast",
            setup: s,
            units: vec![
                u1("insert-toast", &format!("INSERT INTO t VALUES (1, '{}')", "y".repeat(1500)), vec![("t", Some(1))]),
                u1("insert-toast", &format!("INSERT INTO t VALUES (2, '{}')", "z".repeat(9000)), vec![("t", Some(2))]),
                u1("update-toast", &format!("UPDATE t SET a = '{}' WHERE id = 1", "q".repeat(2000)), vec![("t", Some(1))]),
            ],
            tables: vec![("t", vec![1, 2], vec![])],
        });
    }
    if property == "C02" {
        // W8: crash inside an open transaction; W9: multi-row update
        w.push(Workload {
            name: "w8-open-transaction",
            setup: t_setup(&["INSERT INTO t VALUES (1, 10)"]),
            units: vec![Unit { stmts: vec!["BEGIN".into(), "INSERT INTO t VALUES (2, 20)".into(), "INSERT INTO t VALUES (3, 30)".into(), "UPDATE t SET a = 11 WHERE id = 1".into()], kind: "txn-never-committed", touches: vec![("t", None)] }],
            tables: vec![("t", vec![1, 2, 3], vec![])],
        });
        w.push(Workload {
            name: "w9-multi-row-update",
            setup: t_setup(&["INSERT INTO t VALUES (1, 10)", "INSERT INTO t VALUES (2, 20)", "INSERT INTO t VALUES (3, 30)"]),
            units: vec![u1("update-all", "UPDATE t SET a = a + 1 WHERE id > 0", vec![("t", None)]), u1("delete-all", "DELETE FROM t WHERE id > 1", vec![("t", None)])],
            tables: vec![("t", vec![1, 2, 3], vec![])],
        });
    }
    w
}

// ------------------------------------------------------------------ observation
#[derive(Clone, Debug, PartialEq)]
struct TableObs {
    /// Ok(rows keyed by first column) or Err(class)
    scan: Result<BTreeMap<i64, Row>, String>,
    scan_len: usize,
    count: Result<i64, String>,
    /// per key: rows returned by `WHERE id = k`
    pk: BTreeMap<i64, Result<Vec<Row>, String>>,
    /// per (col, v): rows
    idx: BTreeMap<(String, i64), Result<Vec<Row>, String>>,
}
type Obs = BTreeMap<String, TableObs>;

fn res_rows(r: Res) -> Result<Vec<Row>, String> {
    match r {
        Res::Rows(r) => Ok(r),
        Res::Err(e) => Err(format!("err:{}", vcore::util::clip(&e, 120))),
        Res::Panic(p) => Err(format!("panic:{}", vcore::util::clip(&p, 120))),
        other => Err(format!("unexpected:{}", other.class())),
    }
}

fn observe_db(db: &turdb::Database, wl: &Workload) -> Obs {
    let mut o = Obs::new();
    for (t, keys, idx) in &wl.tables {
        let scan_rows = res_rows(exec(db, &format!("SELECT * FROM {t} WHERE 1=1")));
        let scan_len = scan_rows.as_ref().map(|r| r.len()).unwrap_or(0);
        let scan = scan_rows.map(|rows| {
            let mut m = BTreeMap::new();
            for r in rows {
                if let Some(V::Int(k)) = r.first() {
                    m.insert(*k, r.clone());
                }
            }
            m
        });
        let count = match res_rows(exec(db, &format!("SELECT COUNT(*) FROM {t}"))) {
            Ok(r) => match r.first().and_then(|r| r.first()) {
                Some(V::Int(n)) => Ok(*n),
                other => Err(format!("unexpected:{other:?}")),
            },
            Err(e) => Err(e),
        };
        let mut pk = BTreeMap::new();
        for k in keys {
            pk.insert(*k, res_rows(exec(db, &format!("SELECT * FROM {t} WHERE id = {k}"))));
        }
        let mut ix = BTreeMap::new();
        for (col, vals) in idx {
            for v in vals {
                ix.insert((col.to_string(), *v), res_rows(exec(db, &format!("SELECT * FROM {t} WHERE {col} = {v}"))).map(|mut r| {
                    r.sort();
                    r
                }));
            }
        }
        o.insert(t.to_string(), TableObs { scan, scan_len, count, pk, idx: ix });
    }
    o
}

/// Reference observations: obs[i] = state after units 0..i ran on a never-crashed twin.
fn reference(wl: &Workload, scratch: &Path) -> Vec<Obs> {
    let mut out = Vec::new();
    let t = TestDb::create(scratch, &format!("ref-{}", wl.name)).unwrap_or_else(|e| vcore::machinery(&format!("reference db: {e}")));
    for s in &wl.setup {
        let r = t.exec(s);
        if !r.ok() {
            vcore::machinery(&format!("workload {} setup statement failed on the reference twin: {s}: {}", wl.name, r.show()));
        }
    }
    out.push(observe_db(t.db(), wl));
    for u in &wl.units {
        for s in &u.stmts {
            let r = t.exec(s);
            if !r.ok() {
                vcore::machinery(&format!("workload {} statement failed on the reference twin: {s}: {}", wl.name, r.show()));
            }
        }
        if u.kind == "txn-never-committed" {
            let _ = t.exec("ROLLBACK");
        }
        out.push(observe_db(t.db(), wl));
    }
    out
}

// ------------------------------------------------------------------ recording
struct Recording {
    events: Vec<Event>,
    store: HashMap<Hash, Arc<Vec<u8>>>,
    counts: BTreeMap<String, u64>,
}

fn record(wl: &Workload, scratch: &Path) -> Recording {
    let dir = scratch.join(format!("rec-{}", wl.name));
    let _ = std::fs::remove_dir_all(&dir);
    let db = turdb::Database::create(&dir).unwrap_or_else(|e| vcore::machinery(&format!("create: {e:#}")));
    for s in &wl.setup {
        if let Err(e) = db.execute(s) {
            vcore::machinery(&format!("workload {} setup failed: {s}: {e:#}", wl.name));
        }
    }
    let dir = std::fs::canonicalize(&dir).unwrap_or(dir);
    {
        let mut r = Recorder { dir: dir.clone(), store: HashMap::new(), durable: HashMap::new(), events: Vec::new(), acked: 0, in_flight: None, counts: BTreeMap::new() };
        // Baseline: what the setup left.  Everything the setup wrote is treated as
        // durable (the workload under test starts from a synced database).
        let mut listing = Vec::new();
        list_files(&dir, &dir, &mut listing);
        for (_rel, p) in listing {
            if let (Ok(b), Ok(md)) = (std::fs::read(&p), std::fs::metadata(&p)) {
                r.durable.insert(md.ino(), Arc::new(b));
            }
        }
        *RECORDER.lock().unwrap() = Some(r);
    }
    turdb::verif_hooks::set_page_mut_hook(Some(page_mut_hook));
    ACTIVE.store(true, Ordering::SeqCst);
    hook(Sys::Stmt("start".into()));
    for (i, u) in wl.units.iter().enumerate() {
        {
            let mut g = RECORDER.lock().unwrap();
            g.as_mut().unwrap().in_flight = Some(i);
        }
        hook(Sys::Stmt(format!("unit-begin {i}")));
        COARSE.store(u.kind == "txn-bulk", Ordering::SeqCst);
        for s in &u.stmts {
            let r = vcore::catch(|| db.execute(s).map(|_| ()).map_err(|e| format!("{e:#}")));
            match r {
                Ok(Ok(())) => {}
                other => {
                    ACTIVE.store(false, Ordering::SeqCst);
                    vcore::machinery(&format!("workload {} statement failed while recording: {s}: {other:?}", wl.name));
                }
            }
            hook(Sys::Stmt(format!("stmt-end {i}")));
        }
        COARSE.store(false, Ordering::SeqCst);
        if u.kind != "txn-never-committed" {
            let mut g = RECORDER.lock().unwrap();
            let r = g.as_mut().unwrap();
            r.acked = i + 1;
            r.in_flight = None;
        }
        hook(Sys::Stmt(format!("unit-end {i}")));
    }
    ACTIVE.store(false, Ordering::SeqCst);
    turdb::verif_hooks::set_page_mut_hook(None);
    // the database object is dropped WITHOUT being part of the history (drop = clean close, not a crash)
    std::mem::forget(db);
    let r = RECORDER.lock().unwrap().take().unwrap();
    let _ = std::fs::remove_dir_all(&dir);
    Recording { events: r.events, store: r.store, counts: r.counts }
}

// ------------------------------------------------------------------ crash states
#[derive(Clone, Debug)]
struct CrashState {
    event: usize,
    /// "kill" | "power-strict" | "power-lenient"
    model: &'static str,
    /// lenient only: which differing blocks are kept (indices into the diff list), as a label
    variant: String,
    files: Vec<(String, Vec<u8>)>,
}

const BLOCK: usize = 16384;

fn build_states(rec: &Recording, ev_idx: usize, max_full_subsets: usize) -> Vec<CrashState> {
    let ev = &rec.events[ev_idx];
    let get = |h: &Hash| rec.store.get(h).map(|a| a.as_ref().clone()).unwrap_or_default();
    let mut out = Vec::new();
    out.push(CrashState { event: ev_idx, model: "kill", variant: String::new(), files: ev.files.iter().map(|f| (f.rel.clone(), get(&f.kill))).collect() });
    // strict power loss
    out.push(CrashState { event: ev_idx, model: "power-strict", variant: String::new(), files: ev.files.iter().map(|f| (f.rel.clone(), get(&f.durable))).collect() });
    // lenient power loss: current length; differing blocks kept or lost
    let mut base: Vec<(String, Vec<u8>, Vec<u8>)> = Vec::new(); // rel, durable padded to kill length, kill
    let mut diffs: Vec<(usize, usize)> = Vec::new(); // (file index, block index)
    for (fi, f) in ev.files.iter().enumerate() {
        let k = get(&f.kill);
        let mut d = get(&f.durable);
        d.resize(k.len(), 0);
        let blk = if f.rel.starts_with("wal/") || f.rel.ends_with(".catalog") || f.rel.ends_with(".meta") { 4096 } else { BLOCK };
        let nb = (k.len() + blk - 1) / blk;
        for b in 0..nb {
            let lo = b * blk;
            let hi = (lo + blk).min(k.len());
            if k[lo..hi] != d[lo..hi] {
                diffs.push((fi, b));
            }
        }
        base.push((f.rel.clone(), d, k));
    }
    let blk_of = |rel: &str| if rel.starts_with("wal/") || rel.ends_with(".catalog") || rel.ends_with(".meta") { 4096 } else { BLOCK };
    let n = diffs.len();
    let mut masks: Vec<Vec<bool>> = Vec::new();
    if n <= max_full_subsets {
        for m in 0..(1u32 << n) {
            masks.push((0..n).map(|i| m & (1 << i) != 0).collect());
        }
    } else {
        masks.push(vec![false; n]);
        masks.push(vec![true; n]);
        for i in 0..n {
            let mut one = vec![false; n];
            one[i] = true;
            masks.push(one);
            let mut all_but = vec![true; n];
            all_but[i] = false;
            masks.push(all_but);
            masks.push((0..n).map(|j| j <= i).collect()); // prefixes in file/block order
        }
    }
    for mask in masks {
        let mut files: Vec<(String, Vec<u8>)> = base.iter().map(|(r, d, _)| (r.clone(), d.clone())).collect();
        for (i, keep) in mask.iter().enumerate() {
            if *keep {
                let (fi, b) = diffs[i];
                let blk = blk_of(&base[fi].0);
                let lo = b * blk;
                let hi = (lo + blk).min(base[fi].2.len());
                files[fi].1[lo..hi].copy_from_slice(&base[fi].2[lo..hi]);
            }
        }
        let label: String = mask.iter().map(|k| if *k { '1' } else { '0' }).collect();
        out.push(CrashState { event: ev_idx, model: "power-lenient", variant: label, files });
    }
    out
}

fn state_hash(s: &CrashState) -> u64 {
    let mut h = 0u64;
    for (r, b) in &s.files {
        h = h.rotate_left(7) ^ vcore::util::hash_str(r) ^ vcore::util::hash_bytes(b).rotate_left(3) ^ b.len() as u64;
    }
    h
}

fn materialize(s: &CrashState, dir: &Path) {
    let _ = std::fs::remove_dir_all(dir);
    std::fs::create_dir_all(dir).unwrap();
    for (rel, bytes) in &s.files {
        let p = dir.join(rel);
        if let Some(pp) = p.parent() {
            std::fs::create_dir_all(pp).unwrap();
        }
        std::fs::write(&p, bytes).unwrap();
    }
    // the wal directory always exists in a real database
    let _ = std::fs::create_dir_all(dir.join("wal"));
}

// ------------------------------------------------------------------ oracles
fn touched(u: &Unit, table: &str, key: i64) -> bool {
    u.touches.iter().any(|(t, k)| *t == table && (k.is_none() || *k == Some(key)))
}
fn touches_table(u: &Unit, table: &str) -> bool {
    u.touches.iter().any(|(t, _)| *t == table)
}

struct Verdicts<'a> {
    rep: &'a mut Reporter,
    wl: &'a Workload,
    st: &'a CrashState,
    ev: &'a Event,
}
impl<'a> Verdicts<'a> {
    fn fire(&mut self, prop: &str, layer: &str, expected: &str, observed: &str) {
        let inflight = self.ev.in_flight.map(|i| self.wl.units[i].kind).unwrap_or("none");
        let last = if self.ev.acked > 0 { self.wl.units[self.ev.acked - 1].kind } else { "setup" };
        let sig = format!("{prop}/{}/{layer}/in-flight:{inflight}/last-acked:{last}", self.st.model);
        let (wl, ev, model, variant) = (self.wl.name, self.st.event, self.st.model, self.st.variant.clone());
        let label = self.ev.label.clone();
        self.rep.violation(prop, layer, &sig, || json!({"workload": wl, "event": ev, "event_label": label, "model": model, "variant": variant}), expected, observed);
    }
}

fn show_tobs(t: &TableObs) -> String {
    let scan = match &t.scan {
        Ok(m) => format!("{:?}", m.values().map(|r| refmodel::val::show_row(r)).collect::<Vec<_>>()),
        Err(e) => e.clone(),
    };
    format!("scan={scan} count={:?}", t.count)
}

fn judge(property: &str, wl: &Workload, refs: &[Obs], st: &CrashState, ev: &Event, dir: &Path, rep: &mut Reporter) {
    materialize(st, dir);
    let opened = vcore::catch(|| turdb::Database::open(dir).map_err(|e| format!("{e:#}")));
    let mut v = Verdicts { rep, wl, st, ev };
    let db = match opened {
        Ok(Ok(db)) => db,
        Ok(Err(e)) => {
            v.fire(property, "open", "Database::open succeeds", &format!("Err: {}", vcore::util::clip(&e, 300)));
            v.rep.outcome(&format!("{}:open-err", st.model));
            return;
        }
        Err(p) => {
            v.fire(property, "open", "Database::open succeeds", &format!("PANIC: {p}"));
            v.rep.outcome(&format!("{}:open-panic", st.model));
            return;
        }
    };
    let obs = observe_db(&db, wl);
    // ---- C02, kill images only: life goes on after recovery.  One more acknowledged write on
    // the recovered database (WAL is off after a reopen), a clean close and a second reopen must
    // show that write: recovery must have consumed the old log exactly once.
    let mut second_life: Option<(String, i64, i64)> = None;
    if property == "C02" && st.model == "kill" {
        'pick: for (t, _keys, _idx) in &wl.tables {
            if let Ok(m) = &obs[*t].scan {
                for (k, row) in m {
                    if let Some(V::Int(a)) = row.get(1) {
                        let newv = a + 7000;
                        let r = exec(&db, &format!("UPDATE {t} SET a = {newv} WHERE id = {k}"));
                        if matches!(r, Res::Affected(1, _)) {
                            second_life = Some((t.to_string(), *k, newv));
                        }
                        break 'pick;
                    }
                }
            }
        }
    }
    let _ = vcore::catch(move || drop(db));
    if let Some((t, k, newv)) = &second_life {
        match vcore::catch(|| turdb::Database::open(dir).map_err(|e| format!("{e:#}"))) {
            Ok(Ok(db2)) => {
                let got = res_rows(exec(&db2, &format!("SELECT * FROM {t} WHERE id = {k}")));
                let ok = matches!(&got, Ok(rows) if rows.len() == 1 && rows[0].get(1) == Some(&V::Int(*newv)));
                // scan as well (the lookup goes through the index)
                let scan = res_rows(exec(&db2, &format!("SELECT * FROM {t}")));
                let ok_scan = matches!(&scan, Ok(rows) if rows.iter().any(|r| r.first() == Some(&V::Int(*k)) && r.get(1) == Some(&V::Int(*newv))));
                let _ = vcore::catch(move || drop(db2));
                if !ok_scan {
                    v.fire("C02", "write-after-recovery-lost-at-next-reopen", &format!("{t} row {k} has a = {newv} after clean close + reopen"), &format!("lookup {:?}, scan {:?}", got.as_ref().map(|r| refmodel::val::show_rows(r)), scan.as_ref().map(|r| refmodel::val::show_rows(r))));
                } else if !ok {
                    v.rep.count("second_life_lookup_differs_from_scan", 1);
                }
                v.rep.count("second_life_checks", 1);
            }
            other => {
                let msg = match other {
                    Ok(Err(e)) => format!("Err: {e}"),
                    Err(p) => format!("PANIC: {p}"),
                    Ok(Ok(_)) => unreachable!(),
                };
                v.fire("C02", "second-reopen-after-recovery", "Database::open succeeds again after recovery + one write + clean close", &msg);
            }
        }
    }
    let a = ev.acked;
    let inflight = ev.in_flight.map(|i| &wl.units[i]);
    let before = &refs[a];
    let after = ev.in_flight.map(|i| &refs[(i + 1).min(refs.len() - 1)]);
    let mut ok_all = true;
    for (t, keys, _idx) in &wl.tables {
        let o = &obs[*t];
        let r = &before[*t];
        let table_in_flight = inflight.map(|u| touches_table(u, t)).unwrap_or(false);
        let whole_table_in_flight = inflight.map(|u| u.touches.iter().any(|(tt, k)| tt == t && k.is_none())).unwrap_or(false);
        if property == "C01" || property == "C40" {
            // ---- acknowledged effects present (keys/tables touched by the in-flight unit are not constrained)
            if whole_table_in_flight {
                continue;
            }
            match (&o.scan, &r.scan) {
                (Err(e), Ok(_)) => {
                    v.fire(property, "scan", "table readable", e);
                    ok_all = false;
                }
                (Ok(om), Ok(rm)) => {
                    for k in keys {
                        if inflight.map(|u| touched(u, t, *k)).unwrap_or(false) {
                            continue;
                        }
                        if om.get(k) != rm.get(k) {
                            v.fire(property, "scan", &format!("{t} key {k}: {:?}", rm.get(k).map(|r| refmodel::val::show_row(r))), &format!("{:?}", om.get(k).map(|r| refmodel::val::show_row(r))));
                            ok_all = false;
                            break;
                        }
                    }
                    // primary-key lookups
                    for k in keys {
                        if inflight.map(|u| touched(u, t, *k)).unwrap_or(false) {
                            continue;
                        }
                        let want: Vec<Row> = rm.get(k).cloned().into_iter().collect();
                        match o.pk.get(k) {
                            Some(Ok(rows)) if *rows == want => {}
                            Some(other) => {
                                v.fire(property, "pk-lookup", &format!("{t} WHERE id={k}: {}", refmodel::val::show_rows(&want)), &format!("{:?}", other.as_ref().map(|r| refmodel::val::show_rows(r))));
                                ok_all = false;
                                break;
                            }
                            None => {}
                        }
                    }
                    if !table_in_flight {
                        if o.count != r.count {
                            v.fire(property, "count", &format!("COUNT(*) of {t} = {:?}", r.count), &format!("{:?}", o.count));
                            ok_all = false;
                        }
                        for (kv, want) in &r.idx {
                            if o.idx.get(kv) != Some(want) {
                                v.fire(property, &format!("index:{}", kv.0), &format!("{t} WHERE {}={}: {:?}", kv.0, kv.1, want.as_ref().map(|r| refmodel::val::show_rows(r))), &format!("{:?}", o.idx.get(kv).map(|x| x.as_ref().map(|r| refmodel::val::show_rows(r)))));
                                ok_all = false;
                                break;
                            }
                        }
                    }
                }
                (_, Err(_)) => {} // table does not exist in the reference at this point
            }
        } else {
            // ---- C02: fully readable, self-consistent, and an atomic prefix
            let exists_before = r.scan.is_ok();
            let exists_after = after.map(|x| x[*t].scan.is_ok()).unwrap_or(exists_before);
            match &o.scan {
                Err(e) => {
                    if exists_before && exists_after {
                        v.fire("C02", "readable", "table scans without error", e);
                        ok_all = false;
                    }
                    continue;
                }
                Ok(om) => {
                    match &o.count {
                        Ok(n) if *n as usize == o.scan_len => {}
                        other => {
                            v.fire("C02", "count-vs-scan", &format!("COUNT(*) = scan length = {}", o.scan_len), &format!("{other:?}"));
                            ok_all = false;
                        }
                    }
                    for k in keys {
                        let want: Vec<Row> = om.get(k).cloned().into_iter().collect();
                        match o.pk.get(k) {
                            Some(Ok(rows)) if *rows == want => {}
                            Some(other) => {
                                v.fire("C02", "pk-index-vs-table", &format!("WHERE id={k} agrees with the scan: {}", refmodel::val::show_rows(&want)), &format!("{:?}", other.as_ref().map(|r| refmodel::val::show_rows(r))));
                                ok_all = false;
                                break;
                            }
                            None => {}
                        }
                    }
                    for ((col, val), got) in &o.idx {
                        // rows of the scan whose column equals val (column position: a is column 1)
                        let want: Vec<Row> = {
                            let mut w: Vec<Row> = om.values().filter(|r| r.get(1) == Some(&V::Int(*val))).cloned().collect();
                            w.sort();
                            w
                        };
                        if got.as_ref().ok() != Some(&want) {
                            v.fire("C02", &format!("index:{col}-vs-table"), &format!("WHERE {col}={val} agrees with the scan: {}", refmodel::val::show_rows(&want)), &format!("{:?}", got.as_ref().map(|r| refmodel::val::show_rows(r))));
                            ok_all = false;
                            break;
                        }
                    }
                    // atomic prefix: equals the state before or after the in-flight unit
                    let eq_before = r.scan.as_ref().ok() == Some(om);
                    let eq_after = after.map(|x| x[*t].scan.as_ref().ok() == Some(om)).unwrap_or(false);
                    if !eq_before && !eq_after {
                        v.fire("C02", "atomic-prefix", &format!("{t} = state after {} acknowledged units{}", a, if after.is_some() { " or after the in-flight unit" } else { "" }), &show_tobs(o));
                        ok_all = false;
                    }
                }
            }
        }
    }
    v.rep.outcome(&format!("{}:{}", st.model, if ok_all { "ok" } else { "violation" }));
}

/// C02 only: automatic and streaming recovery must leave identical files.
fn judge_recovery_paths(wl: &Workload, st: &CrashState, ev: &Event, dir: &Path, rep: &mut Reporter) {
    let a = dir.with_extension("auto");
    let b = dir.with_extension("stream");
    materialize(st, &a);
    materialize(st, &b);
    let ra = vcore::catch(|| turdb::verif_hooks::recover_all_tables(&a, &a.join("wal")).map_err(|e| format!("{e:#}")));
    let rb = vcore::catch(|| turdb::verif_hooks::streaming_recovery(&b, &b.join("wal"), 4).map_err(|e| format!("{e:#}")));
    let mut v = Verdicts { rep, wl, st, ev };
    let (ra, rb) = match (ra, rb) {
        (Ok(x), Ok(y)) => (x, y),
        (x, y) => {
            v.fire("C02", "recovery-paths", "neither recovery path panics", &format!("auto={x:?} streaming={y:?}"));
            return;
        }
    };
    if ra.is_ok() != rb.is_ok() {
        v.fire("C02", "recovery-paths", "both recovery paths agree on success", &format!("auto={ra:?} streaming={rb:?}"));
    } else if ra.is_ok() {
        let mut la = Vec::new();
        let mut lb = Vec::new();
        list_files(&a, &a, &mut la);
        list_files(&b, &b, &mut lb);
        for ((ra_rel, pa), (_rb_rel, pb)) in la.iter().zip(lb.iter()) {
            if !ra_rel.ends_with(".tbd") && !ra_rel.ends_with(".idx") {
                continue;
            }
            if std::fs::read(pa).ok() != std::fs::read(pb).ok() {
                v.fire("C02", "recovery-paths", &format!("{ra_rel} identical after automatic and streaming recovery"), "file contents differ");
                break;
            }
        }
        v.rep.count("recovery_path_pairs_compared", 1);
    }
    let _ = std::fs::remove_dir_all(&a);
    let _ = std::fs::remove_dir_all(&b);
}


// ------------------------------------------------------------------ C40 pass "catalog-serde"
// First sentence of C40: saving and reloading the catalog yields an identical catalog.  Every catalog of a
// bounded constructive space (one feature varied at a time over a two-schema base, then all feature pairs of a
// reduced menu) is serialized and deserialized into a fresh `Catalog::new()` — in memory and through
// save()/load() on a file — and every table definition is compared with the original by the repository's own
// `PartialEq` (ids, names, columns, types, constraints incl. both FK actions, defaults, max lengths, primary key,
// indexes with direction / expression / WHERE, toast id).  row_count is not persisted by design and stays 0.
mod catalog_serde {
    use super::*;
    use turdb::schema::persistence::CatalogPersistence;
    use turdb::schema::table::{ColumnDef, Constraint, IndexColumnDef, IndexDef, IndexType, ReferentialAction, SortDirection, TableDef};
    use turdb::schema::Catalog;
    use turdb::types::DataType;

    pub const TYPES: &[DataType] = &[
        DataType::Bool, DataType::Int2, DataType::Int4, DataType::Int8, DataType::Float4, DataType::Float8, DataType::Date, DataType::Time,
        DataType::Timestamp, DataType::TimestampTz, DataType::Uuid, DataType::MacAddr, DataType::Inet4, DataType::Inet6, DataType::Text,
        DataType::Blob, DataType::Vector, DataType::Jsonb, DataType::Varchar, DataType::Char, DataType::Decimal, DataType::Interval,
        DataType::Int4Range, DataType::Int8Range, DataType::DateRange, DataType::TimestampRange, DataType::Enum, DataType::Point,
        DataType::Box, DataType::Circle, DataType::Composite, DataType::Array,
    ];
    const ACTIONS: &[Option<ReferentialAction>] = &[None, Some(ReferentialAction::Cascade), Some(ReferentialAction::Restrict), Some(ReferentialAction::NoAction), Some(ReferentialAction::SetNull), Some(ReferentialAction::SetDefault)];

    fn constraint_menu() -> Vec<(String, Vec<Constraint>)> {
        let mut v: Vec<(String, Vec<Constraint>)> = vec![
            ("none".into(), vec![]),
            ("notnull".into(), vec![Constraint::NotNull]),
            ("pk".into(), vec![Constraint::PrimaryKey]),
            ("unique".into(), vec![Constraint::Unique]),
            ("autoinc".into(), vec![Constraint::AutoIncrement]),
            ("check".into(), vec![Constraint::Check("c0 > 0 AND c0 <> 7".into())]),
            ("check-empty".into(), vec![Constraint::Check(String::new())]),
            ("check-utf8".into(), vec![Constraint::Check("c0 <> 'é∑'".into())]),
            ("notnull+unique+check".into(), vec![Constraint::NotNull, Constraint::Unique, Constraint::Check("c0 < 5".into())]),
            ("check+check".into(), vec![Constraint::Check("c0 < 5".into()), Constraint::Check("c0 > 1".into())]),
            ("pk+autoinc".into(), vec![Constraint::PrimaryKey, Constraint::AutoIncrement]),
        ];
        for d in ACTIONS {
            for u in ACTIONS {
                v.push((format!("fk:{d:?}/{u:?}"), vec![Constraint::ForeignKey { table: "parent".into(), column: "id".into(), on_delete: *d, on_update: *u }]));
            }
        }
        v.push(("fk+notnull".into(), vec![Constraint::ForeignKey { table: "p2".into(), column: "k".into(), on_delete: Some(ReferentialAction::SetNull), on_update: Some(ReferentialAction::Cascade) }, Constraint::NotNull]));
        v
    }
    fn default_menu() -> Vec<Option<String>> {
        vec![None, Some("0".into()), Some(String::new()), Some("'x y'".into()), Some("CURRENT_TIMESTAMP".into()), Some("'é'".into()), Some("z".repeat(300))]
    }
    const MAXLEN: &[Option<u32>] = &[None, Some(0), Some(1), Some(255), Some(256), Some(70_000), Some(u32::MAX)];

    fn index_menu() -> Vec<(String, IndexDef)> {
        let mut v = Vec::new();
        for uq in [false, true] {
            for ty in [IndexType::BTree, IndexType::Hnsw] {
                let tag = format!("{}{:?}", if uq { "u" } else { "n" }, ty);
                v.push((format!("{tag}/col"), IndexDef::new("ix", vec!["c0"], uq, ty)));
                v.push((format!("{tag}/2col"), IndexDef::new("ix", vec!["c0", "c1"], uq, ty)));
                v.push((format!("{tag}/desc"), IndexDef::new_expression("ix", vec![IndexColumnDef::column_desc("c0")], uq, ty)));
                v.push((format!("{tag}/asc+desc"), IndexDef::new_expression("ix", vec![IndexColumnDef::column("c1"), IndexColumnDef::column_desc("c0")], uq, ty)));
                v.push((format!("{tag}/expr"), IndexDef::new_expression("ix", vec![IndexColumnDef::expression("lower(c1)")], uq, ty)));
                v.push((format!("{tag}/expr-desc+col"), IndexDef::new_expression("ix", vec![IndexColumnDef::expression("c0 + 1").with_direction(SortDirection::Desc), IndexColumnDef::column("c1")], uq, ty)));
                v.push((format!("{tag}/partial"), IndexDef::new("ix", vec!["c0"], uq, ty).with_where_clause("c0 > 3".into())));
                v.push((format!("{tag}/partial-expr"), IndexDef::new_expression("ix", vec![IndexColumnDef::expression("c0 * 2")], uq, ty).with_where_clause("c1 IS NOT NULL".into())));
            }
        }
        v
    }

    /// one table under test: (label, definition)
    fn base_cols() -> Vec<ColumnDef> {
        vec![ColumnDef::new("c0", DataType::Int8), ColumnDef::new("c1", DataType::Text)]
    }
    fn col(ty: DataType, cons: &[Constraint], def: &Option<String>, ml: Option<u32>) -> ColumnDef {
        let mut c = ColumnDef::new("c0", ty);
        for k in cons {
            c = c.with_constraint(k.clone());
        }
        if let Some(d) = def {
            c = c.with_default(d.clone());
        }
        if let Some(m) = ml {
            c = c.with_max_length(m);
        }
        c
    }

    pub fn cases(quick: bool) -> Vec<(String, TableDef)> {
        let mut out: Vec<(String, TableDef)> = Vec::new();
        let cm = constraint_menu();
        let dm = default_menu();
        let im = index_menu();
        // (1) one feature at a time
        for ty in TYPES {
            out.push((format!("type:{ty:?}"), TableDef::new(7, "t", vec![col(*ty, &[], &None, None), ColumnDef::new("c1", DataType::Text)])));
        }
        for (n, cons) in &cm {
            out.push((format!("cons:{n}"), TableDef::new(7, "t", vec![col(DataType::Int8, cons, &None, None), ColumnDef::new("c1", DataType::Text)])));
        }
        for (i, d) in dm.iter().enumerate() {
            out.push((format!("default:{i}"), TableDef::new(7, "t", vec![col(DataType::Int8, &[], d, None), ColumnDef::new("c1", DataType::Text)])));
        }
        for m in MAXLEN {
            out.push((format!("maxlen:{m:?}"), TableDef::new(7, "t", vec![col(DataType::Varchar, &[], &None, *m), ColumnDef::new("c1", DataType::Text)])));
        }
        for (n, ix) in &im {
            out.push((format!("index:{n}"), TableDef::new(7, "t", base_cols()).with_index(ix.clone())));
        }
        for id in [0u64, 1, 255, 256, 65_535, 65_536, u32::MAX as u64, u32::MAX as u64 + 1, u64::MAX - 1] {
            out.push((format!("id:{id}"), TableDef::new(id, "t", base_cols())));
        }
        for t in [1u64, 300, u32::MAX as u64 + 5] {
            out.push((format!("toast:{t}"), TableDef::new(7, "t", base_cols()).with_toast_id(t)));
        }
        out.push(("pk:1".into(), TableDef::new(7, "t", base_cols()).with_primary_key(vec!["c0"])));
        out.push(("pk:2".into(), TableDef::new(7, "t", base_cols()).with_primary_key(vec!["c1", "c0"])));
        out.push(("pk:empty".into(), TableDef::new(7, "t", base_cols()).with_primary_key(Vec::<String>::new())));
        out.push(("cols:0".into(), TableDef::new(7, "t", vec![])));
        out.push(("cols:40".into(), TableDef::new(7, "t", (0..40).map(|i| ColumnDef::new(format!("k{i}"), TYPES[i % TYPES.len()])).collect())));
        out.push(("name:utf8".into(), TableDef::new(7, "täble ∑", vec![ColumnDef::new("cöl", DataType::Int4)])));
        out.push(("name:long".into(), TableDef::new(7, "n".repeat(300), vec![ColumnDef::new("c".repeat(300), DataType::Int4)])));
        out.push(("two-indexes".into(), {
            let mut t = TableDef::new(7, "t", base_cols()).with_index(IndexDef::new("i1", vec!["c0"], true, IndexType::BTree));
            t.add_index(IndexDef::new_expression("i2", vec![IndexColumnDef::column_desc("c1")], false, IndexType::BTree).with_where_clause("c0 > 0".into()));
            t
        }));
        // (2) pairs: constraints x defaults x max length on every type (reduced menus in the quick tier)
        let cm2: Vec<&(String, Vec<Constraint>)> = if quick { cm.iter().filter(|(n, _)| !n.starts_with("fk:") || n == "fk:Some(Cascade)/Some(SetNull)" || n == "fk:None/Some(Restrict)").collect() } else { cm.iter().collect() };
        let types2: Vec<DataType> = if quick { vec![DataType::Int8, DataType::Varchar, DataType::Vector, DataType::Decimal, DataType::Array] } else { TYPES.to_vec() };
        for ty in &types2 {
            for (n, cons) in &cm2 {
                for (di, d) in dm.iter().enumerate() {
                    for m in [None, Some(256u32)] {
                        out.push((format!("pair:{ty:?}/{n}/d{di}/{m:?}"), TableDef::new(9, "t", vec![col(*ty, cons, d, m), ColumnDef::new("c1", DataType::Text)]).with_primary_key(vec!["c0"])));
                    }
                }
            }
        }
        // (3) every constraint set next to every index shape (the two live in different sections of the record)
        for (n, cons) in &cm2 {
            for (inx, ix) in &im {
                if !quick || inx.starts_with("nBTree") || inx.starts_with("uHnsw") {
                    out.push((format!("cons-index:{n}/{inx}"), TableDef::new(11, "t", vec![col(DataType::Int8, cons, &None, None), ColumnDef::new("c1", DataType::Text)]).with_index(ix.clone())));
                }
            }
        }
        out
    }

    fn build(t: &TableDef) -> Catalog {
        // the table under test sits between neighbours in two schemas, so that a field read at a wrong offset
        // or carried over from the previous record shows up
        let mut c = Catalog::new();
        let _ = c.create_schema("s2");
        let root = c.default_schema().to_string();
        let before = TableDef::new(3, "before", vec![ColumnDef::new("id", DataType::Int4).with_constraint(Constraint::PrimaryKey)]).with_primary_key(vec!["id"]);
        let after = TableDef::new(900, "zafter", vec![ColumnDef::new("v", DataType::Text).with_default("'d'")]).with_index(IndexDef::new("zi", vec!["v"], false, IndexType::BTree));
        c.get_schema_mut(&root).unwrap().add_table(before);
        c.get_schema_mut(&root).unwrap().add_table(t.clone());
        c.get_schema_mut(&root).unwrap().add_table(after.clone());
        let mut t2 = t.clone();
        t2.rename(format!("{}_twin", t.name()));
        c.get_schema_mut("s2").unwrap().add_table(t2);
        c.get_schema_mut("s2").unwrap().add_table(after);
        c
    }

    fn diff(a: &Catalog, b: &Catalog) -> Option<(String, String, String)> {
        let mut sa: Vec<&String> = a.schemas().keys().collect();
        let mut sb: Vec<&String> = b.schemas().keys().collect();
        sa.sort();
        sb.sort();
        if sa != sb {
            return Some(("schemas".into(), format!("{sa:?}"), format!("{sb:?}")));
        }
        for s in sa {
            let (x, y) = (&a.schemas()[s], &b.schemas()[s]);
            if x.id() != y.id() {
                return Some(("schema-id".into(), format!("{s}: {:?}", x.id()), format!("{s}: {:?}", y.id())));
            }
            let mut ta: Vec<&String> = x.tables().keys().collect();
            let mut tb: Vec<&String> = y.tables().keys().collect();
            ta.sort();
            tb.sort();
            if ta != tb {
                return Some(("tables".into(), format!("{s}: {ta:?}"), format!("{s}: {tb:?}")));
            }
            for t in ta {
                let (p, q) = (&x.tables()[t], &y.tables()[t]);
                if p != q {
                    let part = if p.id() != q.id() {
                        "table-id"
                    } else if p.columns() != q.columns() {
                        "columns"
                    } else if p.primary_key() != q.primary_key() {
                        "primary-key"
                    } else if p.indexes() != q.indexes() {
                        let (pi, qi) = (p.indexes(), q.indexes());
                        if pi.len() != qi.len() {
                            "index-count"
                        } else if pi.iter().zip(qi).any(|(a, b)| a.column_defs() != b.column_defs()) {
                            "index-columns"
                        } else if pi.iter().zip(qi).any(|(a, b)| a.where_clause() != b.where_clause()) {
                            "index-where"
                        } else {
                            "indexes"
                        }
                    } else if p.toast_id() != q.toast_id() {
                        "toast-id"
                    } else {
                        "other"
                    };
                    return Some((part.into(), format!("{s}.{t}: {p:?}"), format!("{s}.{t}: {q:?}")));
                }
            }
        }
        None
    }

    fn class(label: &str) -> String {
        // signature class: the feature group, and for single-feature cases the feature itself
        let head = label.split(':').next().unwrap_or("");
        // ('/' separates signature components, so labels use '|' inside a signature)
        match head {
            "pair" => head.to_string(),
            "cons-index" => format!("cons-index:{}", label.rsplit('/').next().unwrap_or("")),
            _ => label.replace('/', "|"),
        }
    }

    pub fn check_one(label: &str, t: &TableDef, scratch: &Path, rep: &mut Reporter) {
        let cat = build(t);
        let lab = label.to_string();
        let mut report = |rep: &mut Reporter, via: &str, kind: &str, exp: String, obs: String| {
            let sig = format!("C40/catalog-serde/{via}/{kind}/{}", class(&lab));
            let l2 = lab.clone();
            rep.violation("C40", "catalog-serde", &sig, || json!({"scenario": "catalog-serde", "label": l2}), &vcore::util::clip(&exp, 600), &vcore::util::clip(&obs, 600));
        };
        // in memory
        match vcore::catch(|| CatalogPersistence::serialize(&cat).map_err(|e| e.to_string())) {
            Ok(Ok(bytes)) => {
                let mut back = Catalog::new();
                match vcore::catch(|| CatalogPersistence::deserialize(&bytes, &mut back).map_err(|e| e.to_string())) {
                    Ok(Ok(())) => match diff(&cat, &back) {
                        None => rep.outcome("catalog-serde/bytes/equal"),
                        Some((k, e, o)) => {
                            rep.outcome("catalog-serde/bytes/differs");
                            report(rep, "bytes", &k, e, o)
                        }
                    },
                    Ok(Err(e)) => {
                        rep.outcome("catalog-serde/bytes/deserialize-error");
                        report(rep, "bytes", "deserialize-error", "the serialized catalog deserializes".into(), e)
                    }
                    Err(p) => {
                        rep.outcome("catalog-serde/bytes/deserialize-panic");
                        report(rep, "bytes", "deserialize-panic", "the serialized catalog deserializes".into(), p)
                    }
                }
                // serializing the reloaded catalog again must give a catalog equal to the first (a second generation)
                let mut again = Catalog::new();
                if let Ok(Ok(b2)) = vcore::catch(|| CatalogPersistence::serialize(&back).map_err(|e| e.to_string())) {
                    if let Ok(Ok(())) = vcore::catch(|| CatalogPersistence::deserialize(&b2, &mut again).map_err(|e| e.to_string())) {
                        if let Some((k, e, o)) = diff(&back, &again) {
                            report(rep, "second-generation", &k, e, o);
                        }
                        rep.count("catalog_serde_second_generation_compared", 1);
                    }
                }
            }
            Ok(Err(e)) => {
                rep.outcome("catalog-serde/serialize-error");
                report(rep, "bytes", "serialize-error", "a catalog built through the public schema API serializes".into(), e)
            }
            Err(p) => {
                rep.outcome("catalog-serde/serialize-panic");
                report(rep, "bytes", "serialize-panic", "a catalog built through the public schema API serializes".into(), p)
            }
        }
        // through a file, twice over the same path (the second save replaces a longer/shorter predecessor)
        let dir = scratch.join("catser");
        let _ = std::fs::create_dir_all(&dir);
        let path = dir.join("turdb.catalog");
        let big = build(&TableDef::new(5, "filler", (0..30).map(|i| ColumnDef::new(format!("f{i}"), DataType::Text).with_default("x".repeat(50))).collect()));
        let _ = vcore::catch(|| CatalogPersistence::save(&big, &path).map_err(|e| e.to_string()));
        match vcore::catch(|| CatalogPersistence::save(&cat, &path).map_err(|e| e.to_string())) {
            Ok(Ok(())) => {
                let mut back = Catalog::new();
                match vcore::catch(|| CatalogPersistence::load(&path, &mut back).map_err(|e| e.to_string())) {
                    Ok(Ok(())) => match diff(&cat, &back) {
                        None => rep.outcome("catalog-serde/file/equal"),
                        Some((k, e, o)) => {
                            rep.outcome("catalog-serde/file/differs");
                            report(rep, "file", &k, e, o)
                        }
                    },
                    Ok(Err(e)) => report(rep, "file", "load-error", "the saved catalog loads".into(), e),
                    Err(p) => report(rep, "file", "load-panic", "the saved catalog loads".into(), p),
                }
            }
            Ok(Err(e)) => report(rep, "file", "save-error", "the catalog saves".into(), e),
            Err(p) => report(rep, "file", "save-panic", "the catalog saves".into(), p),
        }
        let _ = std::fs::remove_file(&path);
        rep.count("catalog_serde_catalogs", 1);
    }

    pub fn run(ctx: &Ctx, rep: &mut Reporter, only: Option<&str>) {
        let list = cases(ctx.quick());
        if ctx.worker == 0 || only.is_some() {
            rep.bound("catalog_serde", json!({"catalogs": list.len(), "data_types": TYPES.len(), "constraint_sets": constraint_menu().len(), "fk_action_pairs": 36, "defaults": default_menu().len(), "max_lengths": MAXLEN.len(), "index_shapes": index_menu().len(), "via": ["serialize/deserialize", "second generation", "save/load over an existing longer file"]}));
        }
        for (i, (label, t)) in list.iter().enumerate() {
            if let Some(o) = only {
                if o != label {
                    continue;
                }
            } else if !ctx.mine(1_000_000 + i as u64) {
                continue;
            }
            rep.begin_case(&format!("{{\"scenario\":\"catalog-serde\",\"label\":{:?}}}", label));
            check_one(label, t, &ctx.scratch, rep);
            rep.case(vcore::util::hash_str(label) ^ 0xC40, true);
        }
        rep.expect_nonzero("catalog_serde_catalogs");
    }
}

// ------------------------------------------------------------------ check
struct Crash;

fn explore(property: &str, ctx: &Ctx, rep: &mut Reporter, only: Option<(&str, usize, &str, &str)>) {
    let quick = ctx.quick();
    interposer_self_test(&ctx.scratch);
    let max_full = if quick { 4 } else { 8 };
    let wls = workloads(property, quick);
    let mut global_idx = 0u64;
    for wl in &wls {
        if let Some((w, _, _, _)) = only {
            if w != wl.name {
                continue;
            }
        }
        let refs = reference(wl, &ctx.scratch);
        let rec = record(wl, &ctx.scratch);
        rep.count(&format!("{}:events", wl.name), if ctx.worker == 0 { rec.events.len() as u64 } else { 0 });
        if ctx.worker == 0 {
            for (k, c) in &rec.counts {
                rep.count(&format!("{}:event-kind:{k}", wl.name), *c);
            }
        }
        rep.expect_nonzero(&format!("{}:events", wl.name));
        let mut seen: BTreeSet<u64> = BTreeSet::new();
        for ei in 0..rec.events.len() {
            if ctx.expired() {
                rep.capped(&format!("deadline in workload {} at event {ei}/{}", wl.name, rec.events.len()));
                break;
            }
            let states = build_states(&rec, ei, max_full);
            for st in states {
                if let Some((_, e, m, var)) = only {
                    if e != ei || m != st.model || var != st.variant {
                        continue;
                    }
                }
                let h = state_hash(&st) ^ vcore::util::hash_str(st.model).rotate_left(11) ^ ((rec.events[ei].acked as u64) << 48) ^ ((rec.events[ei].in_flight.map(|x| x as u64 + 1).unwrap_or(0)) << 56);
                // identical image under the same model and acknowledgement point: already judged
                if only.is_none() && !seen.insert(h) {
                    rep.count("duplicate_states_skipped", 1);
                    continue;
                }
                global_idx += 1;
                if only.is_none() && !ctx.mine(global_idx) {
                    continue;
                }
                let case = format!("{{\"workload\":\"{}\",\"event\":{},\"model\":\"{}\",\"variant\":\"{}\"}}", wl.name, ei, st.model, st.variant);
                rep.begin_case(&case);
                let dir = ctx.scratch.join("crashdb");
                judge(property, wl, &refs, &st, &rec.events[ei], &dir, rep);
                if property == "C02" && st.model == "kill" {
                    judge_recovery_paths(wl, &st, &rec.events[ei], &dir, rep);
                }
                rep.case(h, true);
                rep.count(&format!("states:{}", st.model), 1);
                rep.sample(|| json!({"workload": wl.name, "event": ei, "event_label": rec.events[ei].label, "model": st.model, "variant": st.variant, "acked_units": rec.events[ei].acked}));
            }
        }
    }
    rep.expect_nonzero("states:kill");
    rep.expect_nonzero("states:power-strict");
    rep.expect_nonzero("states:power-lenient");
    rep.bound("full_subset_enumeration_up_to_differing_blocks", json!(max_full));
}

impl Check for Crash {
    fn specs(&self) -> Vec<Spec> {
        let rule = "a case is one crash state of one workload: (event index, crash model, retained-block subset). Events = every page_mut/grow call of MmapStorage, every intercepted write/pwrite/ftruncate/rename/unlink/fsync/fdatasync/msync on a database file, every statement boundary. Models: kill image; strict power loss (only synced bytes, synced length); lenient power loss (current length, every subset of differing 16 KiB blocks (4 KiB for WAL/catalog/meta) kept when <= 4 (quick) / 8 (thorough) blocks differ, else none/all/each single/each all-but-one/each prefix). Distinct = distinct directory image per (model, acknowledgement point); all are non-trivial (a real reopen + observation).";
        let mk = |id: &'static str, text: &'static [&'static str]| {
            let mut s = Spec::new(id, "fault_enumeration", rule);
            s.assumptions = text;
            s.crash_is_verdict = true;
            s.cap_quick_s = 100;
            s.cap_thorough_s = 1700;
            s
        };
        vec![
            mk("C01", &["the state left by the workload's setup statements is taken as durable", "creation/deletion/renaming of files is durable when issued; msync makes its byte range durable and extends the durable length to cover it", "crash points are syscall and page-mutation boundaries (not inside one 16 KiB page copy)", "expected values come from a never-crashed twin database running the same prefix"]),
            mk("C02", &["same crash states as C01", "in-flight unit = the statement or BEGIN..COMMIT group being executed at the crash point; a prefix may include it entirely or not at all"]),
            mk("C40", &["same engine on DDL workloads; tables/indexes that existed before the in-flight DDL statement must still be readable with their rows"]),
        ]
    }
    fn run(&self, ctx: &Ctx, rep: &mut Reporter) {
        let p = ctx.property.clone();
        if p == "C40" {
            catalog_serde::run(ctx, rep, None);
        }
        explore(&p, ctx, rep, None);
    }
    fn replay(&self, ctx: &Ctx, case: &Value, rep: &mut Reporter) {
        let p = ctx.property.clone();
        if case["scenario"].as_str() == Some("catalog-serde") {
            catalog_serde::run(ctx, rep, case["label"].as_str());
            return;
        }
        let w = case["workload"].as_str().unwrap_or("").to_string();
        let e = case["event"].as_u64().unwrap_or(0) as usize;
        let m = case["model"].as_str().unwrap_or("").to_string();
        let v = case["variant"].as_str().unwrap_or("").to_string();
        explore(&p, ctx, rep, Some((&w, e, &m, &v)));
    }
}

fn main() {
    unsafe {
        libc::mallopt(libc::M_MMAP_THRESHOLD, 32 << 20);
        libc::mallopt(libc::M_TRIM_THRESHOLD, 1 << 30);
    }
    vcore::main(&Crash)
}
