//! C11 — every stored value reads back unchanged (exhaustive input enumeration).
//!
//! Product: column type x boundary value x {SQL literal, bound parameter} x
//! {INSERT, UPDATE of an existing row (every transition between size classes)}
//! x {table with PK, without PK} x {read now, read after reopen}.
//! Oracle: the harness's own expected `OwnedValue` (same variant, same value;
//! floats bit-equal, NaN <-> any NaN); JSONB is decoded into a harness tree.
//!
//! Execution is batched: one database per (type, pk, path, op) holds one row per
//! case (reopen costs 20-50 ms on this VM); the first examples of every signature
//! are re-executed alone in a fresh database and only reported under the plain
//! signature when they reproduce there (otherwise `<sig>/batch-only` with the whole
//! batch as the replay case).  A panicking case is removed and its batch re-run,
//! so one defect never hides the rest of the batch.
use checks::sqlh::TestDb;
use std::collections::{BTreeMap, BTreeSet};
use turdb::records::{JsonbBuilder, JsonbBuilderValue, JsonbValue, JsonbView};
use turdb::{Database, ExecuteResult, OwnedValue as OV};
use vcore::{json, Check, Ctx, Reporter, Spec, Value};

// ---------------------------------------------------------------- JSON tree
#[derive(Clone, Debug, PartialEq)]
enum JT {
    Null,
    Bool(bool),
    Num(u64),
    Str(String),
    Arr(Vec<JT>),
    Obj(BTreeMap<String, JT>),
}
impl JT {
    fn num(f: f64) -> JT {
        JT::Num(f.to_bits())
    }
    fn s(x: &str) -> JT {
        JT::Str(x.to_string())
    }
    fn obj(kv: Vec<(&str, JT)>) -> JT {
        JT::Obj(kv.into_iter().map(|(k, v)| (k.to_string(), v)).collect())
    }
    fn esc(s: &str) -> String {
        let mut o = String::from("\"");
        for c in s.chars() {
            match c {
                '"' => o.push_str("\\\""),
                '\\' => o.push_str("\\\\"),
                '\n' => o.push_str("\\n"),
                '\r' => o.push_str("\\r"),
                '\t' => o.push_str("\\t"),
                c if (c as u32) < 0x20 => o.push_str(&format!("\\u{:04x}", c as u32)),
                c => o.push(c),
            }
        }
        o.push('"');
        o
    }
    fn text(&self) -> String {
        match self {
            JT::Null => "null".into(),
            JT::Bool(b) => format!("{b}"),
            JT::Num(b) => {
                let f = f64::from_bits(*b);
                if f.fract() == 0.0 && f.abs() < 1e15 {
                    format!("{}", f as i64)
                } else {
                    format!("{f:?}")
                }
            }
            JT::Str(s) => JT::esc(s),
            JT::Arr(a) => format!("[{}]", a.iter().map(|x| x.text()).collect::<Vec<_>>().join(",")),
            JT::Obj(m) => format!("{{{}}}", m.iter().map(|(k, v)| format!("{}:{}", JT::esc(k), v.text())).collect::<Vec<_>>().join(",")),
        }
    }
    fn bval(&self) -> JsonbBuilderValue {
        match self {
            JT::Null => JsonbBuilderValue::Null,
            JT::Bool(b) => JsonbBuilderValue::Bool(*b),
            JT::Num(b) => JsonbBuilderValue::Number(f64::from_bits(*b)),
            JT::Str(s) => JsonbBuilderValue::String(s.clone()),
            JT::Arr(a) => JsonbBuilderValue::Array(a.iter().map(|x| x.bval()).collect()),
            JT::Obj(m) => JsonbBuilderValue::Object(m.iter().map(|(k, v)| (k.clone(), v.bval())).collect()),
        }
    }
    fn bytes(&self) -> Vec<u8> {
        let b = match self {
            JT::Null => JsonbBuilder::new_null(),
            JT::Bool(b) => JsonbBuilder::new_bool(*b),
            JT::Num(b) => JsonbBuilder::new_number(f64::from_bits(*b)),
            JT::Str(s) => JsonbBuilder::new_string(s.clone()),
            JT::Arr(a) => {
                let mut b = JsonbBuilder::new_array();
                for x in a {
                    b.push(x.bval());
                }
                b
            }
            JT::Obj(m) => {
                let mut b = JsonbBuilder::new_object();
                for (k, v) in m {
                    b.set(k.clone(), v.bval());
                }
                b
            }
        };
        b.build()
    }
    fn from_jv(v: &JsonbValue<'_>) -> Result<JT, String> {
        Ok(match v {
            JsonbValue::Null => JT::Null,
            JsonbValue::Bool(b) => JT::Bool(*b),
            JsonbValue::Number(n) => JT::num(*n),
            JsonbValue::String(s) => JT::Str(s.to_string()),
            JsonbValue::Array(view) => {
                let mut a = Vec::new();
                for it in view.iter_array().map_err(|e| e.to_string())? {
                    a.push(JT::from_jv(&it.map_err(|e| e.to_string())?)?);
                }
                JT::Arr(a)
            }
            JsonbValue::Object(view) => {
                let mut m = BTreeMap::new();
                for it in view.iter_object().map_err(|e| e.to_string())? {
                    let (k, v) = it.map_err(|e| e.to_string())?;
                    m.insert(k.to_string(), JT::from_jv(&v)?);
                }
                JT::Obj(m)
            }
        })
    }
    fn decode(bytes: &[u8]) -> Result<JT, String> {
        match vcore::catch(|| {
            let view = JsonbView::new(bytes).map_err(|e| e.to_string())?;
            let v = view.as_value().map_err(|e| e.to_string())?;
            JT::from_jv(&v)
        }) {
            Ok(r) => r,
            Err(p) => Err(format!("decoder panicked: {p}")),
        }
    }
}

// ---------------------------------------------------------------- values
#[derive(Clone, Debug)]
enum Exp {
    V(OV),
    Json(JT),
    /// canonical decimal text: accepted as Decimal of equal value or as a Float whose shortest rendering is this text
    Dec(String),
}
#[derive(Clone, Debug)]
struct Val {
    class: String,
    lit: Option<String>,
    par: Option<OV>,
    /// acceptable read-back values (first = canonical)
    exp: Vec<Exp>,
    /// value lies outside the declared domain of the column: a clean write error is acceptable
    err_ok: bool,
    /// literal spelling is not documented in the README: a *parse* error is not a verdict
    lit_undoc: bool,
    /// size class (sized types only): inline | toast1 | toast2 | toast3 | toast5 | toastN
    szc: Option<&'static str>,
    /// representative of its size class for the update-transition matrix
    rep: bool,
    /// 0 = both tiers, 1 = thorough only
    tier: u8,
    /// stored byte length when known (TOAST counter)
    bytes: usize,
}
impl Val {
    fn new(class: &str, lit: Option<String>, par: Option<OV>, exp: OV) -> Val {
        Val { class: class.to_string(), lit, par, exp: vec![Exp::V(exp)], err_ok: false, lit_undoc: false, szc: None, rep: false, tier: 0, bytes: 0 }
    }
    fn both(class: &str, lit: &str, v: OV) -> Val {
        Val::new(class, Some(lit.to_string()), Some(v.clone()), v)
    }
    fn also(mut self, e: OV) -> Val {
        self.exp.push(Exp::V(e));
        self
    }
    fn err_ok(mut self) -> Val {
        self.err_ok = true;
        self
    }
    fn undoc(mut self) -> Val {
        self.lit_undoc = true;
        self
    }
    fn t(mut self) -> Val {
        self.tier = 1;
        self
    }
    fn sized(mut self, n: usize, rep: bool) -> Val {
        self.bytes = n;
        self.szc = Some(szc_of(n));
        self.rep = rep;
        self
    }
}
const TOAST_THRESHOLD: usize = 1000;
const TOAST_CHUNK: usize = 4000;
fn szc_of(n: usize) -> &'static str {
    if n <= TOAST_THRESHOLD {
        "inline"
    } else {
        match n.div_ceil(TOAST_CHUNK) {
            1 => "toast1",
            2 => "toast2",
            3 => "toast3",
            4 | 5 => "toast5",
            _ => "toastN",
        }
    }
}

struct Ty {
    sig: String,
    ddl: String,
    vals: Vec<Val>,
    /// index of the ordinary value rows hold before an UPDATE
    base: usize,
    tier: u8,
}

fn ascii_of(n: usize, seed: u64) -> String {
    let mut s = String::with_capacity(n);
    for i in 0..n {
        let x = ((i as u64).wrapping_mul(2654435761).wrapping_add(seed.wrapping_mul(40503)) >> 5) % 62;
        let c = match x {
            0..=25 => b'a' + x as u8,
            26..=51 => b'A' + (x - 26) as u8,
            _ => b'0' + (x - 52) as u8,
        };
        s.push(c as char);
    }
    s
}
/// exactly n bytes of valid UTF-8 dominated by multibyte characters
fn mb_of(n: usize, seed: u64) -> String {
    let pool = ['é', '日', '😀', 'ß', '語', 'ж'];
    let mut s = String::with_capacity(n);
    let mut i = seed as usize;
    while s.len() < n {
        let c = pool[i % pool.len()];
        i += 1;
        if s.len() + c.len_utf8() <= n {
            s.push(c);
        } else {
            s.push('x');
        }
    }
    s
}
/// n bytes that are NOT valid UTF-8 (contains 00 and FF), deterministic
fn bin_of(n: usize, seed: u64) -> Vec<u8> {
    let mut v = Vec::with_capacity(n);
    for i in 0..n {
        let x = ((i as u64).wrapping_mul(0x9E3779B97F4A7C15).wrapping_add(seed) >> 29) as u8;
        v.push(match i % 5 {
            0 => 0xFF,
            1 => 0x00,
            _ => x,
        });
    }
    v
}
fn sql_text(s: &str) -> String {
    format!("'{}'", s.replace('\'', "''"))
}
fn sql_blob(b: &[u8]) -> String {
    format!("x'{}'", vcore::util::hex(b))
}

fn days_from_civil(y: i64, m: i64, d: i64) -> i64 {
    let y = if m <= 2 { y - 1 } else { y };
    let era = if y >= 0 { y } else { y - 399 } / 400;
    let yoe = y - era * 400;
    let doy = (153 * (if m > 2 { m - 3 } else { m + 9 }) + 2) / 5 + d - 1;
    let doe = yoe * 365 + yoe / 4 - yoe / 100 + doy;
    era * 146097 + doe - 719468
}

const SIZES_Q: [usize; 10] = [0, 1, 999, 1000, 1001, 3999, 4000, 4001, 8001, 20000];
const SIZES_T: [usize; 30] = [2, 16, 17, 18, 127, 128, 255, 256, 998, 1002, 1016, 1017, 1018, 2000, 3998, 4002, 7999, 8000, 8002, 11999, 12000, 12001, 16000, 16383, 16384, 16385, 32768, 65535, 65536, 100_000];
const REP_SIZES: [usize; 7] = [10, 1000, 1001, 4000, 4001, 8001, 20000];

fn text_vals(max: usize, thorough: bool) -> Vec<Val> {
    let mut v = vec![
        Val::both("null", "NULL", OV::Null),
        Val::both("typical", "'hello'", OV::Text("hello".into())),
        Val::both("empty", "''", OV::Text(String::new())),
        Val::both("1char", "'a'", OV::Text("a".into())),
        Val::both("multibyte", "'é日😀'", OV::Text("é日😀".into())),
        Val::both("quote", "'it''s'", OV::Text("it's".into())),
        Val::both("two-quotes", "'a''''b'", OV::Text("a''b".into())),
        Val::both("dquote", "'say \"x\"'", OV::Text("say \"x\"".into())),
        Val::both("backslash", "'a\\b\\'", OV::Text("a\\b\\".into())),
        Val::both("newline", "'a\nb\r\n\tc'", OV::Text("a\nb\r\n\tc".into())),
        Val::both("nul-byte", "'a\0b'", OV::Text("a\0b".into())),
        Val::both("digits", "'123'", OV::Text("123".into())),
        Val::both("word-null", "'NULL'", OV::Text("NULL".into())),
        Val::both("spaces", "' ab  '", OV::Text(" ab  ".into())),
        Val::both("comment-chars", "'a--b/*c*/;d'", OV::Text("a--b/*c*/;d".into())),
        Val::both("json-like", "'{\"a\":[1,2]}'", OV::Text("{\"a\":[1,2]}".into())),
        Val::both("len17", &sql_text(&ascii_of(17, 3)), OV::Text(ascii_of(17, 3))),
    ];
    let mut sizes: Vec<(usize, u8)> = SIZES_Q.iter().filter(|n| **n > 1).map(|n| (*n, 0u8)).collect();
    sizes.extend(SIZES_T.iter().map(|n| (*n, 1u8)));
    sizes.push((2 * 1024 * 1024, 1));
    for (n, tier) in sizes {
        if n > max || (tier == 1 && !thorough) {
            continue;
        }
        let s = ascii_of(n, 1);
        let mut x = Val::both(&format!("size-{n}"), &sql_text(&s), OV::Text(s)).sized(n, false);
        x.tier = tier;
        v.push(x);
        if [1000usize, 1001, 4000, 4001, 8001].contains(&n) || (thorough && n <= 20000) {
            let s = mb_of(n, 2);
            let mut x = Val::both(&format!("mb-size-{n}"), &sql_text(&s), OV::Text(s)).sized(n, false);
            x.tier = if [1000usize, 1001, 4000, 4001, 8001].contains(&n) { 0 } else { 1 };
            v.push(x);
        }
    }
    for n in REP_SIZES {
        if n > max {
            continue;
        }
        let s = ascii_of(n, 7);
        v.push(Val::both(&format!("rep-{}-{n}", szc_of(n)), &sql_text(&s), OV::Text(s)).sized(n, true));
    }
    // characters of every encoded width placed at every alignment relative to a TOAST chunk boundary:
    // `cut-w<W>-o<O>-b<K>`: ASCII up to byte 4000*K - O, then ONE W-byte character (O of its bytes lie before
    // the boundary: O = 0 starts exactly on it, O = 1..W-1 straddle it), then a short ASCII tail.
    for (k, tier) in [(1usize, 0u8), (2, 1), (3, 1), (5, 1)] {
        for (w, c) in WIDTH_CHARS.iter().enumerate().map(|(i, c)| (i + 1, *c)) {
            for o in 0..w {
                let n = TOAST_CHUNK * k - o + w + 5;
                if n > max || (tier == 1 && !thorough) {
                    continue;
                }
                let mut s = ascii_of(TOAST_CHUNK * k - o, 21);
                s.push(c);
                s.push_str(&ascii_of(5, 22));
                debug_assert_eq!(s.len(), n);
                let mut x = Val::both(&format!("cut-w{w}-o{o}-b{k}"), &sql_text(&s), OV::Text(s)).sized(n, false);
                x.tier = tier;
                v.push(x);
            }
        }
    }
    // text made of W-byte characters only after P ASCII bytes, long enough to cross 3 (thorough: 6) boundaries:
    // `run-w<W>-p<P>-<bytes>`; the alignment differs from boundary to boundary (4000 % 3 = 1, 8000 % 3 = 2 ...)
    for (chunks, tier) in [(3usize, 0u8), (6, 1)] {
        for (w, c) in WIDTH_CHARS.iter().enumerate().map(|(i, c)| (i + 1, *c)).skip(1) {
            for p in 0..w {
                let count = (TOAST_CHUNK * chunks + 40 - p) / w;
                let n = p + count * w;
                if n > max || (tier == 1 && !thorough) {
                    continue;
                }
                let mut s = ascii_of(p, 23);
                for _ in 0..count {
                    s.push(c);
                }
                let mut x = Val::both(&format!("run-w{w}-p{p}-{n}"), &sql_text(&s), OV::Text(s)).sized(n, false);
                x.tier = tier;
                v.push(x);
            }
        }
    }
    v
}
/// one character per UTF-8 encoded width 1..4
const WIDTH_CHARS: [char; 4] = ['q', 'é', '日', '😀'];

fn blob_vals(thorough: bool) -> Vec<Val> {
    let b = |class: &str, bytes: Vec<u8>| Val::both(class, &sql_blob(&bytes), OV::Blob(bytes)).undoc();
    let mut ptr = vec![0xFEu8];
    ptr.extend_from_slice(&5u64.to_le_bytes());
    ptr.extend_from_slice(&1u64.to_le_bytes());
    let mut v = vec![
        Val::both("null", "NULL", OV::Null),
        b("typical", vec![1, 2, 3]),
        b("empty", vec![]),
        b("byte-00", vec![0]),
        b("byte-ff", vec![0xFF]),
        b("mix-00-ff", vec![0, 0xFF, 0, 0xFF, 0x7F, 0x80]),
        b("utf8-small", b"hello".to_vec()),
        b("utf8-multibyte", "é日😀".as_bytes().to_vec()),
        b("toast-pointer-lookalike", ptr.clone()),
        b("fe-prefix-16", ptr[..16].to_vec()),
        b("fe-prefix-18", {
            let mut p = ptr.clone();
            p.push(9);
            p
        }),
        b("fe-x17", vec![0xFE; 17]),
        b("len17-bin", bin_of(17, 4)),
        b("len17-utf8", ascii_of(17, 5).into_bytes()),
    ];
    let mut sizes: Vec<(usize, u8)> = SIZES_Q.iter().filter(|n| **n > 1).map(|n| (*n, 0u8)).collect();
    sizes.extend(SIZES_T.iter().map(|n| (*n, 1u8)));
    sizes.push((2 * 1024 * 1024, 1));
    for (n, tier) in sizes {
        if tier == 1 && !thorough {
            continue;
        }
        let mut x = b(&format!("bin-size-{n}"), bin_of(n, 1)).sized(n, false);
        x.tier = tier;
        v.push(x);
        let mut x = b(&format!("utf8-size-{n}"), ascii_of(n, 2).into_bytes()).sized(n, false);
        x.tier = tier;
        v.push(x);
    }
    for n in REP_SIZES {
        v.push(b(&format!("rep-{}-{n}", szc_of(n)), bin_of(n, 7)).sized(n, true));
    }
    v
}

fn int_vals(min: i64, max: i64, wide: bool) -> Vec<Val> {
    let i = |class: &str, x: i64| Val::both(class, &format!("{x}"), OV::Int(x));
    let mut v = vec![Val::both("null", "NULL", OV::Null), i("typical", 42), i("zero", 0), i("one", 1), i("neg-one", -1), i("max", max), i("min", min), i("max-1", max - 1), i("min+1", min + 1)];
    if !wide {
        // outside the declared width: reject cleanly or keep exactly
        v.push(i("above-max", max + 1).err_ok());
        v.push(i("below-min", min - 1).err_ok());
        v.push(i("far-above-max", 3_000_000_000_000).err_ok());
        v.push(i("i64-max", i64::MAX).err_ok());
    } else {
        v.push(i("u32-range", 3_000_000_000));
        v.push(i("2^53+1", 9_007_199_254_740_993));
    }
    // a float written into an integer column: reject, round, truncate or keep — never garbage or a panic
    v.push(Val::both("float-1.0", "1.0", OV::Float(1.0)).also(OV::Int(1)).err_ok());
    v.push(Val::both("float-2.5", "2.5", OV::Float(2.5)).also(OV::Int(2)).also(OV::Int(3)).err_ok());
    v.push(Val::both("float-neg-7.9", "-7.9", OV::Float(-7.9)).also(OV::Int(-7)).also(OV::Int(-8)).err_ok());
    v.push(Val::new("float-nan", None, Some(OV::Float(f64::NAN)), OV::Float(f64::NAN)).err_ok());
    v.push(Val::new("float-1e300", Some("1e300".into()), Some(OV::Float(1e300)), OV::Float(1e300)).err_ok().undoc());
    v
}

fn float_vals(single: bool) -> Vec<Val> {
    let f = |class: &str, lit: &str, x: f64| {
        let mut v = Val::both(class, lit, OV::Float(x));
        if single {
            let y = x as f32 as f64;
            if y.to_bits() != x.to_bits() {
                v = v.also(OV::Float(y));
            }
            if x.is_finite() && x.abs() > f32::MAX as f64 {
                v = v.err_ok();
            }
        }
        v
    };
    let p = |class: &str, x: f64| {
        let mut v = f(class, "", x);
        v.lit = None;
        v
    };
    vec![
        Val::both("null", "NULL", OV::Null),
        f("typical", "1.5", 1.5),
        f("zero", "0.0", 0.0),
        f("neg-zero", "-0.0", -0.0),
        f("tenth", "0.1", 0.1),
        f("neg", "-2.75", -2.75),
        f("many-digits", "123456789.123456789", 123456789.123456789),
        f("f32-max", "340282346638528860000000000000000000000.0", f32::MAX as f64),
        f("exp-form", "1.5e10", 1.5e10).undoc(),
        f("max", "1.7976931348623157e308", f64::MAX).undoc(),
        f("neg-max", "-1.7976931348623157e308", -f64::MAX).undoc(),
        f("min-normal", "2.2250738585072014e-308", f64::MIN_POSITIVE).undoc(),
        f("subnormal", "5e-324", 5e-324).undoc(),
        p("nan", f64::NAN),
        p("inf", f64::INFINITY),
        p("neg-inf", f64::NEG_INFINITY),
        // an integer written into a float column: the same number, or a clean rejection
        Val::new("int-literal", Some("1".into()), None, OV::Float(1.0)).err_ok(),
        Val::new("int-literal-neg", Some("-3".into()), None, OV::Float(-3.0)).err_ok(),
        Val::new("int-literal-big", Some("9007199254740993".into()), None, OV::Float(9007199254740992.0)).also(OV::Float(9007199254740994.0)).err_ok(),
        Val::new("int-param", None, Some(OV::Int(1)), OV::Float(1.0)).err_ok(),
        Val::new("int-param-zero", None, Some(OV::Int(0)), OV::Float(0.0)).err_ok(),
        Val::new("int-param-neg", None, Some(OV::Int(-3)), OV::Float(-3.0)).err_ok(),
    ]
}

fn date_val(class: &str, y: i64, m: i64, d: i64) -> Val {
    let days = days_from_civil(y, m, d) as i32;
    Val::both(class, &format!("'{y:04}-{m:02}-{d:02}'"), OV::Date(days))
}
fn ts_micros(y: i64, mo: i64, d: i64, h: i64, mi: i64, s: i64, us: i64) -> i64 {
    days_from_civil(y, mo, d) * 86_400_000_000 + ((h * 60 + mi) * 60 + s) * 1_000_000 + us
}

fn json_vals(thorough: bool) -> Vec<Val> {
    let j = |class: &str, t: JT| {
        let text = t.text();
        let bytes = t.bytes();
        let n = bytes.len();
        let mut v = Val { class: class.to_string(), lit: Some(sql_text(&text)), par: Some(OV::Jsonb(bytes)), exp: vec![Exp::Json(t)], err_ok: false, lit_undoc: true, szc: None, rep: false, tier: 0, bytes: n };
        if n > 600 {
            v = v.sized(n, false);
        }
        v
    };
    let nested = JT::obj(vec![("a", JT::num(1.0)), ("b", JT::Arr(vec![JT::Bool(true), JT::Null, JT::s("x"), JT::obj(vec![("c", JT::Arr(vec![JT::num(0.5), JT::Arr(vec![])]))])])), ("d", JT::obj(vec![]))]);
    let mut deep = JT::num(7.0);
    for i in 0..12 {
        deep = if i % 2 == 0 { JT::Arr(vec![deep]) } else { JT::obj(vec![("k", deep)]) };
    }
    let mut v = vec![
        Val::both("null", "NULL", OV::Null),
        j("typical", JT::obj(vec![("a", JT::num(1.0))])),
        j("empty-object", JT::obj(vec![])),
        j("empty-array", JT::Arr(vec![])),
        j("scalar-null", JT::Null),
        j("scalar-true", JT::Bool(true)),
        j("scalar-number", JT::num(42.0)),
        j("scalar-fraction", JT::num(-0.125)),
        j("scalar-string", JT::s("hi")),
        j("scalar-empty-string", JT::s("")),
        j("nested", nested),
        j("deep-12", deep),
        j("string-escapes", JT::obj(vec![("q", JT::s("a\"b\\c\nd\te"))])),
        j("string-unicode", JT::obj(vec![("é日", JT::s("😀ß"))])),
        j("string-sql-quote", JT::Arr(vec![JT::s("it's"), JT::s("a,b"), JT::s("{x:[1]}")])),
        j("number-big", JT::Arr(vec![JT::num(1e308), JT::num(9007199254740993.0), JT::num(5e-324)])),
        j("array-100", JT::Arr((0..100).map(|i| JT::num(i as f64)).collect())),
    ];
    for n in [900usize, 1500, 4100, 9000, 20000] {
        v.push(j(&format!("long-string-{n}"), JT::obj(vec![("s", JT::s(&ascii_of(n, 9)))])));
    }
    if thorough {
        v.push(j("long-string-50000", JT::obj(vec![("s", JT::s(&ascii_of(50000, 9)))])).t());
        v.push(j("array-3000", JT::Arr((0..3000).map(|i| JT::num(i as f64 / 8.0)).collect())).t());
    }
    // representatives for transitions
    for n in [10usize, 1100, 4100, 9000] {
        let t = JT::obj(vec![("r", JT::s(&ascii_of(n, 11)))]);
        let mut x = j(&format!("rep-{}-{n}", szc_of(t.bytes().len())), t);
        let b = x.bytes;
        x = x.sized(b, true);
        v.push(x);
    }
    v
}

fn vec_lit(x: &[f32]) -> String {
    format!("'[{}]'", x.iter().map(|f| if f.is_nan() { "NaN".to_string() } else if f.is_infinite() { if *f > 0.0 { "inf".to_string() } else { "-inf".to_string() } } else { format!("{f:?}") }).collect::<Vec<_>>().join(", "))
}
fn vector_vals(dim: usize) -> Vec<Val> {
    let mk = |class: &str, x: Vec<f32>| {
        let n = x.len() * 4;
        let v = Val::both(class, &vec_lit(&x), OV::Vector(x)).undoc();
        if n > 600 {
            v.sized(n, false)
        } else {
            v
        }
    };
    let ramp = |seed: f32| -> Vec<f32> { (0..dim).map(|i| (i as f32) * 0.25 - seed).collect() };
    let fill = |x: f32| -> Vec<f32> { vec![x; dim] };
    let mut v = vec![
        Val::both("null", "NULL", OV::Null),
        mk("typical", ramp(1.0)),
        mk("zeros", fill(0.0)),
        mk("neg-zero", fill(-0.0)),
        mk("f32-max", fill(f32::MAX)),
        mk("f32-min", fill(f32::MIN)),
        mk("subnormal", fill(1e-45)),
        mk("tenth", fill(0.1)),
        mk("nan", fill(f32::NAN)),
        mk("inf", fill(f32::INFINITY)),
        mk("neg-inf", fill(f32::NEG_INFINITY)),
        mk("ramp-2", ramp(17.5)),
    ];
    // wrong dimension: reject or keep
    if dim > 1 {
        v.push(mk("short-dim", vec![1.0; dim - 1]).err_ok());
    }
    v
}

fn dec_text(digits: i128, scale: i16) -> String {
    let neg = digits < 0;
    let mut s = digits.unsigned_abs().to_string();
    if scale > 0 {
        let sc = scale as usize;
        while s.len() <= sc {
            s.insert(0, '0');
        }
        s.insert(s.len() - sc, '.');
        while s.ends_with('0') {
            s.pop();
        }
        if s.ends_with('.') {
            s.pop();
        }
    }
    if neg && s != "0" {
        s.insert(0, '-');
    }
    s
}
fn decimal_vals() -> Vec<Val> {
    let d = |class: &str, digits: i128, scale: i16| {
        let t = dec_text(digits, scale);
        // literal spelled with its full scale (e.g. 1.50)
        let lit = {
            let neg = digits < 0;
            let mut s = digits.unsigned_abs().to_string();
            if scale > 0 {
                let sc = scale as usize;
                while s.len() <= sc {
                    s.insert(0, '0');
                }
                s.insert(s.len() - sc, '.');
            }
            if neg {
                s.insert(0, '-');
            }
            s
        };
        Val { class: class.to_string(), lit: Some(lit), par: Some(OV::Decimal(digits, scale)), exp: vec![Exp::Dec(t)], err_ok: false, lit_undoc: false, szc: None, rep: false, tier: 0, bytes: 0 }
    };
    vec![
        Val::both("null", "NULL", OV::Null),
        d("typical", 125, 2),
        d("zero", 0, 0),
        d("integer", 42, 0),
        d("neg", -375, 3),
        d("tenth", 1, 1),
        d("money", 1999, 2),
        d("trailing-zero", 150, 2),
        d("digits-18", 123456789012345678, 9),
        d("digits-30", 123456789012345678901234567890, 15),
        d("small-scale-20", 1, 20),
        d("int-digits-25", 1234567890123456789012345, 0),
    ]
}

fn types(thorough: bool) -> Vec<Ty> {
    let mut out: Vec<Ty> = Vec::new();
    let mut add = |sig: &str, ddl: &str, vals: Vec<Val>, tier: u8| {
        let base = vals.iter().position(|v| v.class == "typical").expect("typical value");
        let mut seen = BTreeSet::new();
        for v in &vals {
            assert!(seen.insert(v.class.clone()), "duplicate class {} in {sig}", v.class);
        }
        out.push(Ty { sig: sig.to_string(), ddl: ddl.to_string(), vals, base, tier });
    };
    let bools = || vec![Val::both("null", "NULL", OV::Null), Val::both("typical", "TRUE", OV::Bool(true)), Val::both("false", "FALSE", OV::Bool(false))];
    add("boolean", "BOOLEAN", bools(), 0);
    add("smallint", "SMALLINT", int_vals(i16::MIN as i64, i16::MAX as i64, false), 0);
    add("int", "INT", int_vals(i32::MIN as i64, i32::MAX as i64, false), 0);
    add("bigint", "BIGINT", int_vals(i64::MIN + 1, i64::MAX - 1, true).into_iter().chain(vec![Val::both("i64-max", "9223372036854775807", OV::Int(i64::MAX)), Val::both("i64-min", "-9223372036854775808", OV::Int(i64::MIN))]).collect(), 0);
    add("real", "REAL", float_vals(true), 0);
    add("double", "DOUBLE", float_vals(false), 0);
    add("decimal", "DECIMAL", decimal_vals(), 0);
    add("decimal(38,15)", "DECIMAL(38,15)", decimal_vals(), 1);
    // CHAR(n): fixed length — trailing padding to n characters is acceptable
    let pad = |s: &str, n: usize| {
        let mut p = s.to_string();
        while p.chars().count() < n {
            p.push(' ');
        }
        p
    };
    let ch = |class: &str, s: &str, n: usize| {
        let v = Val::both(class, &sql_text(s), OV::Text(s.to_string()));
        if s.chars().count() < n {
            v.also(OV::Text(pad(s, n)))
        } else {
            v
        }
    };
    add(
        "char(4)",
        "CHAR(4)",
        vec![
            Val::both("null", "NULL", OV::Null),
            ch("typical", "abcd", 4),
            ch("short", "ab", 4),
            ch("empty", "", 4),
            ch("multibyte-4", "é日😀ß", 4).err_ok(), // README: CHAR(n) is stored in n bytes — a 4-character string of 11 bytes may be rejected
            ch("quote", "i's", 4),
            ch("over-length", "abcdef", 4).also(OV::Text("abcd".into())).err_ok(),
        ],
        0,
    );
    add(
        "char(5000)",
        "CHAR(5000)",
        vec![Val::both("null", "NULL", OV::Null), ch("typical", "hello", 5000)]
            .into_iter()
            .chain([999usize, 1000, 1001, 4001, 5000].iter().map(|n| ch(&format!("size-{n}"), &ascii_of(*n, 1), 5000)))
            .collect(),
        0,
    );
    add(
        "varchar(10)",
        "VARCHAR(10)",
        vec![
            Val::both("null", "NULL", OV::Null),
            Val::both("typical", "'hello'", OV::Text("hello".into())),
            Val::both("empty", "''", OV::Text(String::new())),
            Val::both("exact-10", "'abcdefghij'", OV::Text("abcdefghij".into())),
            Val::both("multibyte-10", "'é日😀ßé日😀ßé日'", OV::Text("é日😀ßé日😀ßé日".into())).err_ok(), // "max n": characters or bytes is not documented
            Val::both("over-length", "'abcdefghijk'", OV::Text("abcdefghijk".into())).also(OV::Text("abcdefghij".into())).err_ok(),
        ],
        0,
    );
    // quick tier: the chunk-boundary alignment values run on the TEXT column only (same storage path)
    add(
        "varchar(30000)",
        "VARCHAR(30000)",
        text_vals(20000, thorough)
            .into_iter()
            .map(|mut v| {
                if v.class.starts_with("cut-") || v.class.starts_with("run-") {
                    v.tier = 1;
                }
                v
            })
            .collect(),
        0,
    );
    add("varchar", "VARCHAR", text_vals(20000, false), 1);
    add("text", "TEXT", text_vals(usize::MAX, thorough), 0);
    add("blob", "BLOB", blob_vals(thorough), 0);
    add(
        "date",
        "DATE",
        vec![
            Val::both("null", "NULL", OV::Null),
            date_val("typical", 2024, 1, 15),
            date_val("epoch", 1970, 1, 1),
            date_val("before-epoch", 1969, 12, 31),
            date_val("min-0001", 1, 1, 1),
            date_val("max-9999", 9999, 12, 31),
            date_val("leap-day", 2024, 2, 29),
            date_val("leap-2000", 2000, 2, 29),
            date_val("after-non-leap-1900", 1900, 3, 1),
            date_val("y1582", 1582, 10, 10),
            Val::new("param-i32-max", None, Some(OV::Date(i32::MAX)), OV::Date(i32::MAX)),
            Val::new("param-i32-min", None, Some(OV::Date(i32::MIN)), OV::Date(i32::MIN)),
            Val::new("param-neg-one", None, Some(OV::Date(-1)), OV::Date(-1)),
        ],
        0,
    );
    let tm = |class: &str, lit: &str, us: i64| Val::both(class, lit, OV::Time(us));
    add(
        "time",
        "TIME",
        vec![
            Val::both("null", "NULL", OV::Null),
            tm("typical", "'13:45:30'", (13 * 3600 + 45 * 60 + 30) * 1_000_000),
            tm("midnight", "'00:00:00'", 0),
            tm("last-second", "'23:59:59'", 86_399_000_000),
            tm("last-micro", "'23:59:59.999999'", 86_399_999_999),
            tm("fraction", "'12:34:56.5'", (12 * 3600 + 34 * 60 + 56) * 1_000_000 + 500_000),
            tm("one-micro", "'00:00:00.000001'", 1),
            Val::new("param-i64-max", None, Some(OV::Time(i64::MAX)), OV::Time(i64::MAX)).err_ok(),
            Val::new("param-neg", None, Some(OV::Time(-1)), OV::Time(-1)).err_ok(),
        ],
        0,
    );
    let ts = |class: &str, lit: &str, us: i64| Val::both(class, lit, OV::Timestamp(us));
    add(
        "timestamp",
        "TIMESTAMP",
        vec![
            Val::both("null", "NULL", OV::Null),
            ts("typical", "'2024-01-15 13:45:30'", ts_micros(2024, 1, 15, 13, 45, 30, 0)),
            ts("t-separator", "'2024-01-15T13:45:30'", ts_micros(2024, 1, 15, 13, 45, 30, 0)),
            ts("epoch", "'1970-01-01 00:00:00'", 0),
            ts("before-epoch", "'1969-12-31 23:59:59'", -1_000_000),
            ts("before-epoch-frac", "'1969-12-31 23:59:59.999999'", -1),
            ts("min-0001", "'0001-01-01 00:00:00'", ts_micros(1, 1, 1, 0, 0, 0, 0)),
            ts("max-9999", "'9999-12-31 23:59:59.999999'", ts_micros(9999, 12, 31, 23, 59, 59, 999_999)),
            ts("leap-day", "'2024-02-29 12:00:00.25'", ts_micros(2024, 2, 29, 12, 0, 0, 250_000)),
            Val::new("param-i64-max", None, Some(OV::Timestamp(i64::MAX)), OV::Timestamp(i64::MAX)),
            Val::new("param-i64-min", None, Some(OV::Timestamp(i64::MIN)), OV::Timestamp(i64::MIN)),
        ],
        0,
    );
    add(
        "timestamptz",
        "TIMESTAMPTZ",
        vec![
            Val::both("null", "NULL", OV::Null),
            Val::new("typical", None, Some(OV::TimestampTz(ts_micros(2024, 1, 15, 13, 45, 30, 0), 3600)), OV::TimestampTz(ts_micros(2024, 1, 15, 13, 45, 30, 0), 3600)),
            Val::new("utc-literal", Some("'2024-01-15 13:45:30'".into()), None, OV::TimestampTz(ts_micros(2024, 1, 15, 13, 45, 30, 0), 0)).undoc(),
            Val::new("epoch", None, Some(OV::TimestampTz(0, 0)), OV::TimestampTz(0, 0)),
            Val::new("neg-offset", None, Some(OV::TimestampTz(-1, -43200)), OV::TimestampTz(-1, -43200)),
            Val::new("extremes", None, Some(OV::TimestampTz(i64::MAX, i32::MAX)), OV::TimestampTz(i64::MAX, i32::MAX)),
            Val::new("extremes-min", None, Some(OV::TimestampTz(i64::MIN, i32::MIN)), OV::TimestampTz(i64::MIN, i32::MIN)),
        ],
        0,
    );
    add(
        "interval",
        "INTERVAL",
        vec![
            Val::both("null", "NULL", OV::Null),
            Val::both("typical", "'1 day'", OV::Interval(0, 1, 0)).undoc(),
            Val::both("hours-minutes", "'2 hours 30 minutes'", OV::Interval(9_000_000_000, 0, 0)).undoc(),
            Val::both("year-month", "'1 year 2 months'", OV::Interval(0, 0, 14)).undoc(),
            Val::both("iso8601", "'P1Y2M3DT4H5M6S'", OV::Interval((4 * 3600 + 5 * 60 + 6) * 1_000_000, 3, 14)).undoc(),
            Val::new("zero", None, Some(OV::Interval(0, 0, 0)), OV::Interval(0, 0, 0)),
            Val::new("negative", None, Some(OV::Interval(-1, -2, -3)), OV::Interval(-1, -2, -3)),
            Val::new("extremes", None, Some(OV::Interval(i64::MAX, i32::MAX, i32::MAX)), OV::Interval(i64::MAX, i32::MAX, i32::MAX)),
            Val::new("extremes-min", None, Some(OV::Interval(i64::MIN, i32::MIN, i32::MIN)), OV::Interval(i64::MIN, i32::MIN, i32::MIN)),
        ],
        0,
    );
    let mixed: [u8; 16] = [0x55, 0x0e, 0x84, 0x00, 0xe2, 0x9b, 0x41, 0xd4, 0xa7, 0x16, 0x44, 0x66, 0x55, 0x44, 0x00, 0x00];
    add(
        "uuid",
        "UUID",
        vec![
            Val::both("null", "NULL", OV::Null),
            Val::both("typical", "'550e8400-e29b-41d4-a716-446655440000'", OV::Uuid(mixed)),
            Val::both("all-zero", "'00000000-0000-0000-0000-000000000000'", OV::Uuid([0; 16])),
            Val::both("all-f", "'ffffffff-ffff-ffff-ffff-ffffffffffff'", OV::Uuid([0xFF; 16])),
            Val::new("uppercase", Some("'550E8400-E29B-41D4-A716-446655440000'".into()), None, OV::Uuid(mixed)),
            Val::new("compact", Some("'550e8400e29b41d4a716446655440000'".into()), None, OV::Uuid(mixed)).undoc(),
            Val::both("fe-prefix", "'fe000000-0000-0000-0000-000000000001'", OV::Uuid([0xFE, 0, 0, 0, 0, 0, 0, 0, 0, 0, 0, 0, 0, 0, 0, 1])),
        ],
        0,
    );
    add("jsonb", "JSONB", json_vals(thorough), 0);
    add("json", "JSON", json_vals(false), 0);
    add("vector(1)", "VECTOR(1)", vector_vals(1), 0);
    add("vector(2)", "VECTOR(2)", vector_vals(2), 0);
    add("vector(70)", "VECTOR(70)", vector_vals(70), 0);
    add("vector(300)", "VECTOR(300)", vector_vals(300), 0);
    add("vector(1536)", "VECTOR(1536)", vector_vals(1536), 1);
    // 16.8 KB: larger than a page, needs TOAST
    add("vector(4200)", "VECTOR(4200)", vector_vals(4200).into_iter().filter(|v| ["null", "typical", "ramp-2"].contains(&v.class.as_str())).collect(), 0);
    let p = |class: &str, v: OV| Val::new(class, None, Some(v.clone()), v);
    add("macaddr", "MACADDR", vec![Val::both("null", "NULL", OV::Null), p("typical", OV::MacAddr([1, 2, 3, 4, 5, 6])), p("all-zero", OV::MacAddr([0; 6])), p("all-f", OV::MacAddr([0xFF; 6]))], 0);
    add(
        "inet",
        "INET",
        vec![
            Val::both("null", "NULL", OV::Null),
            p("typical", OV::Inet6([0x20, 1, 0xd, 0xb8, 0, 0, 0, 0, 0, 0, 0, 0, 0, 0, 0, 1])),
            p("v6-all-zero", OV::Inet6([0; 16])),
            p("v6-all-f", OV::Inet6([0xFF; 16])),
            p("v4", OV::Inet4([192, 168, 0, 1])),
            p("v4-all-zero", OV::Inet4([0; 4])),
            p("v4-all-f", OV::Inet4([255; 4])),
        ],
        0,
    );
    add(
        "point",
        "POINT",
        vec![Val::both("null", "NULL", OV::Null), p("typical", OV::Point(1.5, -2.5)), p("zero", OV::Point(0.0, -0.0)), p("extremes", OV::Point(f64::MAX, f64::MIN_POSITIVE)), p("nan-inf", OV::Point(f64::NAN, f64::NEG_INFINITY))],
        0,
    );
    add("box", "BOX", vec![Val::both("null", "NULL", OV::Null), p("typical", OV::Box((0.0, 1.0), (2.0, 3.5))), p("extremes", OV::Box((f64::MAX, -f64::MAX), (5e-324, -0.0)))], 0);
    add("circle", "CIRCLE", vec![Val::both("null", "NULL", OV::Null), p("typical", OV::Circle((1.0, 2.0), 3.0)), p("extremes", OV::Circle((f64::MAX, -0.0), f64::INFINITY))], 0);
    // README "Type Aliases" table
    let small_int = |min: i64, max: i64| vec![Val::both("null", "NULL", OV::Null), Val::both("typical", "42", OV::Int(42)), Val::both("neg-one", "-1", OV::Int(-1)), Val::both("max", &format!("{max}"), OV::Int(max)), Val::both("min", &format!("{min}"), OV::Int(min))];
    let small_float = |single: bool| float_vals(single).into_iter().filter(|v| ["null", "typical", "neg-zero", "tenth", "nan", "int-param", "int-literal"].contains(&v.class.as_str())).collect::<Vec<_>>();
    add("integer", "INTEGER", small_int(i32::MIN as i64, i32::MAX as i64), 0);
    add("int2", "INT2", small_int(i16::MIN as i64, i16::MAX as i64), 0);
    add("int4", "INT4", small_int(i32::MIN as i64, i32::MAX as i64), 0);
    add("int8", "INT8", small_int(i64::MIN + 1, i64::MAX), 0);
    add("float", "FLOAT", small_float(true), 0);
    add("float4", "FLOAT4", small_float(true), 0);
    add("float8", "FLOAT8", small_float(false), 0);
    add("double-precision", "DOUBLE PRECISION", small_float(false), 0);
    add("bool", "BOOL", bools(), 0);
    out.into_iter().filter(|t| thorough || t.tier == 0).collect()
}

// ---------------------------------------------------------------- comparison
fn fbits_eq(a: f64, b: f64) -> bool {
    (a.is_nan() && b.is_nan()) || a.to_bits() == b.to_bits()
}
fn ov_eq(a: &OV, b: &OV) -> bool {
    match (a, b) {
        (OV::Float(x), OV::Float(y)) => fbits_eq(*x, *y),
        (OV::Vector(x), OV::Vector(y)) => x.len() == y.len() && x.iter().zip(y).all(|(p, q)| (p.is_nan() && q.is_nan()) || p.to_bits() == q.to_bits()),
        (OV::Point(a1, a2), OV::Point(b1, b2)) => fbits_eq(*a1, *b1) && fbits_eq(*a2, *b2),
        (OV::Box(a1, a2), OV::Box(b1, b2)) => fbits_eq(a1.0, b1.0) && fbits_eq(a1.1, b1.1) && fbits_eq(a2.0, b2.0) && fbits_eq(a2.1, b2.1),
        (OV::Circle(a1, r1), OV::Circle(b1, r2)) => fbits_eq(a1.0, b1.0) && fbits_eq(a1.1, b1.1) && fbits_eq(*r1, *r2),
        _ => a == b,
    }
}
fn kind(v: &OV) -> &'static str {
    match v {
        OV::Null => "Null",
        OV::Bool(_) => "Bool",
        OV::Int(_) => "Int",
        OV::Float(_) => "Float",
        OV::Text(_) => "Text",
        OV::Blob(_) => "Blob",
        OV::Vector(_) => "Vector",
        OV::Date(_) => "Date",
        OV::Time(_) => "Time",
        OV::Timestamp(_) => "Timestamp",
        OV::TimestampTz(..) => "TimestampTz",
        OV::Uuid(_) => "Uuid",
        OV::MacAddr(_) => "MacAddr",
        OV::Inet4(_) => "Inet4",
        OV::Inet6(_) => "Inet6",
        OV::Interval(..) => "Interval",
        OV::Point(..) => "Point",
        OV::Box(..) => "Box",
        OV::Circle(..) => "Circle",
        OV::Jsonb(_) => "Jsonb",
        OV::Decimal(..) => "Decimal",
        OV::Enum(..) => "Enum",
        OV::ToastPointer(_) => "ToastPointer",
    }
}
fn show(v: &OV) -> String {
    match v {
        OV::Text(s) if s.len() > 60 => format!("Text({:?}… {} bytes, h={:016x})", s.chars().take(24).collect::<String>(), s.len(), vcore::util::hash_str(s)),
        OV::Blob(b) if b.len() > 32 => format!("Blob({}… {} bytes, h={:016x})", vcore::util::hex(&b[..12]), b.len(), vcore::util::hash_bytes(b)),
        OV::Jsonb(b) => match JT::decode(b) {
            Ok(t) => format!("Jsonb({})", vcore::util::clip(&t.text(), 100)),
            Err(e) => format!("Jsonb(undecodable {} bytes: {e})", b.len()),
        },
        OV::Vector(x) if x.len() > 6 => format!("Vector(dim {} {:?}…)", x.len(), &x[..4]),
        OV::Float(f) => format!("Float({f:?} bits={:016x})", f.to_bits()),
        o => vcore::util::clip(&format!("{o:?}"), 160),
    }
}
fn show_exp(e: &[Exp]) -> String {
    e.iter()
        .map(|x| match x {
            Exp::V(v) => show(v),
            Exp::Json(t) => format!("Jsonb({})", vcore::util::clip(&t.text(), 100)),
            Exp::Dec(t) => format!("Decimal {t} (or the Float printing as {t})"),
        })
        .collect::<Vec<_>>()
        .join(" | ")
}
/// None = acceptable, Some(what) = classification of the difference
fn judge(exp: &[Exp], got: &OV) -> Option<&'static str> {
    let mut same_kind = false;
    for e in exp {
        match e {
            Exp::V(x) => {
                if ov_eq(x, got) {
                    return None;
                }
                same_kind |= kind(x) == kind(got);
            }
            Exp::Json(t) => {
                if let OV::Jsonb(b) = got {
                    if JT::decode(b).ok().as_ref() == Some(t) {
                        return None;
                    }
                    same_kind = true;
                }
            }
            Exp::Dec(t) => match got {
                OV::Decimal(d, s) => {
                    if &dec_text(*d, *s) == t {
                        return None;
                    }
                    same_kind = true;
                }
                OV::Float(f) => {
                    if &format!("{f}") == t {
                        return None;
                    }
                    same_kind = true;
                }
                _ => {}
            },
        }
    }
    if matches!(got, OV::Null) {
        return Some("null");
    }
    Some(if same_kind { "value-changed" } else { "type-changed" })
}

// ---------------------------------------------------------------- execution
enum Out {
    Rows(Vec<Vec<OV>>),
    Aff(usize),
    Other,
    Err(String),
    Panic(String),
}
fn run(db: &Database, sql: &str, params: Option<&[OV]>) -> Out {
    let r = vcore::catch(|| match params {
        Some(p) => db.execute_with_params(sql, p).map_err(|e| format!("{e:#}")),
        None => db.execute(sql).map_err(|e| format!("{e:#}")),
    });
    match r {
        Err(p) => Out::Panic(p),
        Ok(Err(e)) => Out::Err(e),
        Ok(Ok(x)) => match x {
            ExecuteResult::Select { rows, .. } => Out::Rows(rows.iter().map(|r| (0..r.column_count()).map(|i| r.get(i).cloned().unwrap_or(OV::Null)).collect()).collect()),
            ExecuteResult::Insert { rows_affected, .. } | ExecuteResult::Update { rows_affected, .. } | ExecuteResult::Delete { rows_affected, .. } => Out::Aff(rows_affected),
            _ => Out::Other,
        },
    }
}

#[derive(Clone, Debug, PartialEq, Eq, PartialOrd, Ord)]
struct CaseKey {
    from: Option<String>,
    to: String,
}
#[derive(Clone)]
struct Unit<'a> {
    ty: &'a Ty,
    pk: bool,
    param: bool,
    update: bool,
    /// (from value index, to value index)
    cases: Vec<(Option<usize>, usize)>,
}
#[derive(Clone, Debug)]
struct Failure {
    case: usize,
    when: &'static str,
    what: String,
    expected: String,
    observed: String,
}
struct UnitRun {
    failures: Vec<Failure>,
    /// batch-level projection failures: (when, what, expected, observed)
    proj: Vec<(&'static str, String, String, String)>,
    panicked: Option<usize>,
    /// harness could not set the batch up
    setup_err: Option<String>,
    written: u64,
    rejected: u64,
    toast_rows: u64,
    unparsed: u64,
    setup_skipped: u64,
    handle_refreshed: u64,
}

fn path_name(param: bool) -> &'static str {
    if param {
        "param"
    } else {
        "literal"
    }
}
fn op_name(u: &Unit, case: (Option<usize>, usize)) -> String {
    if !u.update {
        return "insert".into();
    }
    let to = &u.ty.vals[case.1];
    match case.0 {
        None => "update".into(),
        Some(f) => {
            let from = &u.ty.vals[f];
            match (from.szc, to.szc) {
                (Some(a), Some(b)) => {
                    let same = if a == b && a != "inline" { if from.bytes == to.bytes { "=" } else { "~" } } else { "" };
                    format!("update({a}>{b}{same})")
                }
                (Some(a), None) if a != "inline" => format!("update({a}>inline)"),
                (None, Some(b)) if b != "inline" => format!("update(inline>{b})"),
                _ => {
                    if from.class == "null" {
                        "update(null>v)".into()
                    } else {
                        "update".into()
                    }
                }
            }
        }
    }
}

fn write_value(db: &Database, table: &str, id: usize, v: &Val, param: bool, update: bool) -> Out {
    let w = id * 7 + 1;
    if update {
        if param {
            run(db, &format!("UPDATE {table} SET v = ? WHERE id = {id}"), Some(&[v.par.clone().unwrap()]))
        } else {
            run(db, &format!("UPDATE {table} SET v = {} WHERE id = {id}", v.lit.as_ref().unwrap()), None)
        }
    } else if param {
        run(db, &format!("INSERT INTO {table} VALUES ({id}, ?, {w})"), Some(&[v.par.clone().unwrap()]))
    } else {
        run(db, &format!("INSERT INTO {table} VALUES ({id}, {}, {w})", v.lit.as_ref().unwrap()), None)
    }
}

/// Execute a batch.  `only`: restrict to these case indices (isolation / exclusion).
/// `separate`: every case gets its own table `t<case>` (isolation from the other rows of the batch).
fn run_unit(scratch: &std::path::Path, u: &Unit, only: &BTreeSet<usize>, name: &str, separate: bool) -> UnitRun {
    let mut r = UnitRun { failures: vec![], proj: vec![], panicked: None, setup_err: None, written: 0, rejected: 0, toast_rows: 0, unparsed: 0, setup_skipped: 0, handle_refreshed: 0 };
    let mut t = match TestDb::create(scratch, name) {
        Ok(t) => t,
        Err(e) => {
            r.setup_err = Some(format!("create database: {e}"));
            return r;
        }
    };
    let mk_table = |db: &Database, table: &str| -> Option<String> {
        let ddl = format!("CREATE TABLE {table} (id INT{}, v {}, w INT)", if u.pk { " PRIMARY KEY" } else { "" }, u.ty.ddl);
        match run(db, &ddl, None) {
            Out::Err(e) | Out::Panic(e) => Some(format!("{ddl}: {e}")),
            _ => None,
        }
    };
    if !separate {
        if let Some(e) = mk_table(t.db(), "t") {
            r.setup_err = Some(e);
            return r;
        }
    }
    // groups of cases sharing one table: (table name, case -> row id)
    let mut groups: Vec<(String, BTreeMap<usize, usize>)> = if separate { vec![] } else { vec![("t".to_string(), BTreeMap::new())] };
    let mut next_id = 0usize;
    for (ci, case) in u.cases.iter().enumerate() {
        if !only.contains(&ci) {
            continue;
        }
        next_id += 1;
        let id = if separate { 1 } else { next_id };
        let table = if separate { format!("t{ci}") } else { "t".to_string() };
        if separate {
            if let Some(e) = mk_table(t.db(), &table) {
                r.setup_err = Some(e);
                return r;
            }
            groups.push((table.clone(), BTreeMap::new()));
        }
        let table = table.as_str();
        let to = &u.ty.vals[case.1];
        let is_parse_err = |e: &str| e.contains("failed to parse SQL");
        if u.update {
            let from = &u.ty.vals[case.0.unwrap()];
            match write_value(t.db(), table, id, from, u.param, false) {
                Out::Aff(1) => {}
                Out::Panic(_) => {
                    // the insert unit reports this; the database may be damaged: rerun without the case
                    r.setup_skipped += 1;
                    if separate && t.reopen().is_ok() {
                        r.handle_refreshed += 1;
                        continue;
                    }
                    r.panicked = Some(ci);
                    return r;
                }
                _ => {
                    r.setup_skipped += 1;
                    continue;
                }
            }
        }
        let out = write_value(t.db(), table, id, to, u.param, u.update);
        let fail = |what: &str, observed: String| Failure { case: ci, when: "now", what: what.to_string(), expected: format!("statement succeeds and the value reads back as {}", show_exp(&to.exp)), observed };
        match out {
            Out::Aff(1) => {
                r.written += 1;
                if to.bytes > TOAST_THRESHOLD {
                    r.toast_rows += 1;
                }
                groups.last_mut().unwrap().1.insert(ci, id);
            }
            Out::Aff(n) => r.failures.push(fail("error", format!("statement reported {n} affected rows"))),
            Out::Err(e) => {
                if !u.param && to.lit_undoc && is_parse_err(&e) {
                    r.unparsed += 1;
                } else if to.err_ok {
                    r.rejected += 1;
                } else {
                    r.failures.push(fail("error", format!("Err({})", vcore::util::clip(&e, 300))));
                }
            }
            Out::Panic(p) => {
                r.failures.push(fail("panic", format!("PANIC({})", vcore::util::clip(&p, 300))));
                if separate && t.reopen().is_ok() {
                    // the case has a table of its own: continue with a fresh handle instead of re-running the batch
                    r.handle_refreshed += 1;
                    continue;
                }
                r.panicked = Some(ci);
                return r;
            }
            _ => r.failures.push(fail("error", "statement returned neither an affected count nor an error".into())),
        }
    }
    for when in ["now", "reopen"] {
        if when == "reopen" {
            if let Err(e) = t.reopen() {
                for (&ci, _) in groups.iter().flat_map(|g| g.1.iter()) {
                    let to = &u.ty.vals[u.cases[ci].1];
                    r.failures.push(Failure { case: ci, when, what: if e.starts_with("PANIC") { "panic".into() } else { "error".into() }, expected: format!("database reopens; value reads back as {}", show_exp(&to.exp)), observed: format!("reopen failed: {}", vcore::util::clip(&e, 300)) });
                }
                return r;
            }
        }
        for (table, live) in &groups {
        // full scan once
        let scan = run(t.db(), &format!("SELECT * FROM {table}"), None);
        let scan_rows: Option<BTreeMap<i64, Vec<OV>>> = match &scan {
            Out::Rows(rows) => {
                let mut m = BTreeMap::new();
                for row in rows {
                    if let Some(OV::Int(i)) = row.first() {
                        m.insert(*i, row.clone());
                    }
                }
                Some(m)
            }
            _ => None,
        };
        let scan_problem = match &scan {
            Out::Rows(_) => None,
            Out::Err(e) => Some(("error", format!("SELECT * FROM t => Err({})", vcore::util::clip(e, 300)))),
            Out::Panic(p) => Some(("panic", format!("SELECT * FROM t => PANIC({})", vcore::util::clip(p, 300)))),
            _ => Some(("error", "SELECT * returned no row set".to_string())),
        };
        let failed_before: BTreeSet<usize> = r.failures.iter().map(|f| f.case).collect();
        // a failing full scan is blamed on a row only when it is the only row of the table
        let blame_rows = live.len() <= 1;
        let nfail_before_reads = r.failures.len();
        for (&ci, &id) in live {
            if failed_before.contains(&ci) {
                continue; // stop at divergence: already reported for the earlier read
            }
            let to = &u.ty.vals[u.cases[ci].1];
            let w = (id * 7 + 1) as i64;
            let check_row = |row: &Vec<OV>| -> Option<(String, String)> {
                if row.len() != 3 {
                    return Some(("value-changed".into(), format!("row has {} columns: {:?}", row.len(), row.iter().map(show).collect::<Vec<_>>())));
                }
                if let Some(what) = judge(&to.exp, &row[1]) {
                    return Some((what.into(), show(&row[1])));
                }
                if !ov_eq(&row[0], &OV::Int(id as i64)) || !ov_eq(&row[2], &OV::Int(w)) {
                    return Some(("neighbor-changed".into(), format!("v is right but the row reads (id={}, w={}) instead of ({id}, {w})", show(&row[0]), show(&row[2]))));
                }
                None
            };
            let expected = format!("(id={id}, v={}, w={w})", show_exp(&to.exp));
            // 1. lookup by id
            let q = format!("SELECT * FROM {table} WHERE id = {id}");
            let lookup: Option<(String, String)> = match run(t.db(), &q, None) {
                Out::Rows(rows) => {
                    if rows.is_empty() {
                        Some(("row-missing".into(), format!("{q} => no row")))
                    } else if rows.len() > 1 {
                        Some(("row-duplicated".into(), format!("{q} => {} rows", rows.len())))
                    } else {
                        check_row(&rows[0]).map(|(w, o)| (w, format!("{q} => v={o}")))
                    }
                }
                Out::Err(e) => Some(("error".into(), format!("{q} => Err({})", vcore::util::clip(&e, 300)))),
                Out::Panic(p) => {
                    r.failures.push(Failure { case: ci, when, what: "panic".into(), expected: expected.clone(), observed: format!("{q} => PANIC({})", vcore::util::clip(&p, 300)) });
                    if separate && t.reopen().is_ok() {
                        r.handle_refreshed += 1;
                        continue;
                    }
                    r.panicked = Some(ci);
                    return r;
                }
                _ => Some(("error".into(), format!("{q} => no row set"))),
            };
            // 2. the same row in the full scan
            let scanned: Option<(String, String)> = match (&scan_rows, &scan_problem) {
                (Some(m), _) => match m.get(&(id as i64)) {
                    None => Some(("row-missing".into(), "SELECT * FROM t => row absent".into())),
                    Some(row) => check_row(row).map(|(w, o)| (w, format!("SELECT * FROM t => v={o}"))),
                },
                (None, Some((w, o))) if blame_rows => Some((w.to_string(), o.clone())),
                _ => None,
            };
            match (&lookup, &scanned) {
                (None, None) => {}
                (Some((w1, o1)), Some((w2, _))) if w1 == w2 => r.failures.push(Failure { case: ci, when, what: w1.clone(), expected: expected.clone(), observed: o1.clone() }),
                (Some((w1, o1)), Some((w2, o2))) => {
                    r.failures.push(Failure { case: ci, when, what: w1.clone(), expected: expected.clone(), observed: o1.clone() });
                    r.failures.push(Failure { case: ci, when, what: format!("scan-{w2}"), expected: expected.clone(), observed: o2.clone() });
                }
                (Some((w1, o1)), None) if scan_problem.is_some() => r.failures.push(Failure { case: ci, when, what: w1.clone(), expected: expected.clone(), observed: o1.clone() }),
                (Some((w1, o1)), None) => r.failures.push(Failure { case: ci, when, what: format!("lookup-{w1}"), expected: expected.clone(), observed: format!("{o1} (the full scan returns the right value)") }),
                (None, Some((w2, o2))) => r.failures.push(Failure { case: ci, when, what: format!("scan-{w2}"), expected: expected.clone(), observed: format!("{o2} (the lookup by id returns the right value)") }),
            }
            // 3. filtered single-column projection must agree with the star lookup
            if lookup.is_none() {
                let q = format!("SELECT v FROM {table} WHERE id = {id}");
                let bad = match run(t.db(), &q, None) {
                    Out::Rows(rows) => {
                        if rows.len() != 1 || rows[0].len() != 1 {
                            Some(("filtered-proj-shape".to_string(), format!("{q} => {} rows", rows.len())))
                        } else {
                            judge(&to.exp, &rows[0][0]).map(|w| (format!("filtered-proj-{w}"), format!("{q} => {}", show(&rows[0][0]))))
                        }
                    }
                    Out::Err(e) => Some(("filtered-proj-error".to_string(), format!("{q} => Err({})", vcore::util::clip(&e, 300)))),
                    Out::Panic(p) => Some(("filtered-proj-panic".to_string(), format!("{q} => PANIC({})", vcore::util::clip(&p, 300)))),
                    _ => Some(("filtered-proj-error".to_string(), format!("{q} => no row set"))),
                };
                if let Some((w, o)) = bad {
                    r.failures.push(Failure { case: ci, when, what: w, expected: format!("v={}", show_exp(&to.exp)), observed: o });
                }
            }
        }
        if let (Some((w, o)), false) = (&scan_problem, blame_rows) {
            let _ = nfail_before_reads;
            // attributed to the batch only when no row of this table has been blamed for anything
            if !r.failures.iter().any(|f| live.contains_key(&f.case)) && !separate {
                r.proj.push((when, format!("scan-{w}"), "SELECT * FROM t succeeds (every row of the table can be read by id)".into(), o.clone()));
            }
        }
        // 4. unfiltered single-column projection == v column of SELECT * (position-wise)
        if let (Out::Rows(star), None) = (&scan, &scan_problem) {
            let want: Vec<&OV> = star.iter().filter_map(|r| r.get(1)).collect();
            let bad: Option<(String, String)> = match run(t.db(), &format!("SELECT v FROM {table}"), None) {
                Out::Rows(rows) => {
                    if rows.len() != want.len() {
                        Some(("proj-row-count".into(), format!("{} rows, SELECT * has {}", rows.len(), want.len())))
                    } else if rows.iter().any(|r| r.len() != 1) {
                        Some(("proj-shape".into(), "rows with != 1 column".into()))
                    } else {
                        let diff: Vec<usize> = (0..rows.len()).filter(|i| !ov_eq(&rows[*i][0], want[*i])).collect();
                        if diff.is_empty() {
                            None
                        } else {
                            let i = diff[0];
                            let all_null = diff.iter().all(|i| matches!(rows[*i][0], OV::Null));
                            let ids = diff.iter().all(|i| star[*i].first().map(|x| ov_eq(x, &rows[*i][0])).unwrap_or(false));
                            let what = if all_null { "proj-null" } else if ids { "proj-other-column" } else { "proj-value-changed" };
                            Some((what.into(), format!("{} of {} rows differ; row {i}: SELECT v gives {}, SELECT * gives v={}", diff.len(), rows.len(), show(&rows[i][0]), show(want[i]))))
                        }
                    }
                }
                Out::Err(e) => Some(("proj-error".into(), format!("Err({})", vcore::util::clip(&e, 300)))),
                Out::Panic(p) => Some(("proj-panic".into(), format!("PANIC({})", vcore::util::clip(&p, 300)))),
                _ => Some(("proj-error".into(), "no row set".into())),
            };
            if let Some((w, o)) = bad {
                if !want.is_empty() && !separate {
                    r.proj.push((when, w, "SELECT v FROM t returns, row by row, the v column of SELECT * FROM t".into(), o));
                }
            }
        }
        }
    }
    r
}

fn sig_of(u: &Unit, f: &Failure) -> String {
    let case = u.cases[f.case];
    format!("C11/{}/{}/{}/{}/{}/{}", u.ty.sig, u.ty.vals[case.1].class, path_name(u.param), op_name(u, case), f.when, f.what)
}
fn case_json(u: &Unit, ci: usize) -> Value {
    let case = u.cases[ci];
    json!({"mode": "single", "type": u.ty.sig, "ddl": format!("CREATE TABLE t (id INT{}, v {}, w INT)", if u.pk { " PRIMARY KEY" } else { "" }, u.ty.ddl),
           "pk": u.pk, "path": path_name(u.param), "op": if u.update { "update" } else { "insert" },
           "from": case.0.map(|f| u.ty.vals[f].class.clone()), "value": u.ty.vals[case.1].class,
           "literal": u.ty.vals[case.1].lit.as_ref().map(|l| vcore::util::clip(l, 200)), "param": u.ty.vals[case.1].par.as_ref().map(show)})
}
fn batch_json(u: &Unit, only: &BTreeSet<usize>) -> Value {
    json!({"mode": "batch", "type": u.ty.sig, "pk": u.pk, "path": path_name(u.param), "op": if u.update { "update" } else { "insert" },
           "separate_tables": u.update,
           "cases": only.iter().map(|ci| json!([u.cases[*ci].0.map(|f| u.ty.vals[f].class.clone()), u.ty.vals[u.cases[*ci].1].class])).collect::<Vec<_>>()})
}

fn build_cases(ty: &Ty, param: bool, update: bool, thorough: bool) -> Vec<(Option<usize>, usize)> {
    let usable = |v: &Val| if param { v.par.is_some() } else { v.lit.is_some() };
    let idx: Vec<usize> = (0..ty.vals.len()).filter(|i| usable(&ty.vals[*i]) && (thorough || ty.vals[*i].tier == 0)).collect();
    if !update {
        return idx.iter().map(|i| (None, *i)).collect();
    }
    let mut cases = Vec::new();
    let reps: Vec<usize> = idx.iter().copied().filter(|i| ty.vals[*i].rep).collect();
    let base = if usable(&ty.vals[ty.base]) { Some(ty.base) } else { None };
    // every transition between size classes (representatives x representatives, different content)
    for &f in &reps {
        for &t in &reps {
            cases.push((Some(f), t));
        }
    }
    // same class, same size, different content (TOAST -> TOAST of equal chunk count and equal size)
    for &f in &reps {
        if let Some(&t) = idx.iter().find(|i| !ty.vals[**i].rep && ty.vals[**i].bytes == ty.vals[f].bytes && ty.vals[**i].szc.is_some()) {
            cases.push((Some(f), t));
        }
    }
    if let Some(b) = base {
        let null = idx.iter().copied().find(|i| ty.vals[*i].class == "null");
        let big = reps.iter().copied().find(|i| ty.vals[*i].szc == Some("toast2"));
        for &t in &idx {
            if ty.vals[t].rep {
                continue;
            }
            cases.push((Some(b), t));
            // sized values are also written over a two-chunk TOAST value
            if let Some(bg) = big {
                if ty.vals[t].szc.is_some() || thorough {
                    cases.push((Some(bg), t));
                }
            }
            if let Some(n) = null {
                // quick tier: NULL -> value only for the ordinary value of each type
                if t != n && (thorough || ty.vals[t].class == "typical") {
                    cases.push((Some(n), t));
                }
            }
        }
    }
    cases
}

// ---------------------------------------------------------------- multi-row histories (TOAST chunk keys)
/// Two rows in one table: INSERT row 1, INSERT row 2, then up to two UPDATEs (row, new size); every value is
/// distinct.  After every statement both rows are read by id; the history stops at the first divergence.
#[derive(Clone, Debug, PartialEq, Eq, Hash)]
struct Hist {
    /// how the PRIMARY KEY values relate to the internal row ids the two INSERTs will get (TurDB numbers rows
    /// per database, from 1): 0 "own" = id equals the row's own row id, 1 "swapped" = id equals the OTHER
    /// row's row id, 2 "disjoint" = ids far away from any row id
    align: u8,
    ins: [usize; 2],
    upd: Vec<(usize, usize)>,
}
fn align_name(a: u8) -> &'static str {
    match a {
        0 => "own",
        1 => "swapped",
        _ => "disjoint",
    }
}
fn multi_sizes(thorough: bool) -> Vec<usize> {
    if thorough {
        vec![10, 1000, 1001, 4001, 8001]
    } else {
        vec![10, 1001, 4001]
    }
}
fn multi_hists(thorough: bool) -> Vec<Hist> {
    let sz = multi_sizes(thorough);
    let mut upds: Vec<Vec<(usize, usize)>> = vec![vec![]];
    for r in 0..2 {
        for &s in &sz {
            upds.push(vec![(r, s)]);
        }
    }
    for r1 in 0..2 {
        for &s1 in &sz {
            for r2 in 0..2 {
                for &s2 in &sz {
                    upds.push(vec![(r1, s1), (r2, s2)]);
                }
            }
        }
    }
    let mut v = Vec::new();
    // shortest histories first
    // quick tier: the two INSERTs use the inline and the one-chunk size only
    let ins_sz: Vec<usize> = if thorough { sz.clone() } else { vec![10, 1001] };
    for u in &upds {
        for align in 0..3u8 {
            for &a in &ins_sz {
                for &b in &ins_sz {
                    v.push(Hist { align, ins: [a, b], upd: u.clone() });
                }
            }
        }
    }
    v
}
fn multi_value(blob: bool, n: usize, seed: u64) -> (String, OV) {
    if blob {
        let b = bin_of(n, seed);
        (sql_blob(&b), OV::Blob(b))
    } else {
        let t = ascii_of(n, seed);
        (sql_text(&t), OV::Text(t))
    }
}
/// signature component: how ids relate to row ids, and the LAST executed step (the one that diverged):
/// i2 = second INSERT, u1 = first UPDATE, u2-same-row / u2-other-row = second UPDATE; the whole history is in the case
fn hist_pattern(h: &Hist, pk: bool) -> String {
    let rel = if pk { format!("ids-{}", align_name(h.align)) } else { "nopk".to_string() };
    let last = match h.upd.len() {
        0 => format!("i2:{}", szc_of(h.ins[1])),
        1 => format!("u1:{}", szc_of(h.upd[0].1)),
        _ => format!("u2-{}:{}", if h.upd[0].0 == h.upd[1].0 { "same-row" } else { "other-row" }, szc_of(h.upd[1].1)),
    };
    format!("multi[{rel};{last}]")
}
struct MultiUnit {
    tysig: &'static str,
    ddl: &'static str,
    blob: bool,
    pk: bool,
    param: bool,
    hists: Vec<Hist>,
}
fn multi_case_json(m: &MultiUnit, h: &Hist, steps: usize, pad: usize) -> Value {
    json!({"mode": "multi", "type": m.tysig, "pk": m.pk, "path": path_name(m.param), "align": h.align, "pad_inserts_before": pad, "ins": h.ins, "upd": h.upd.iter().take(steps.saturating_sub(2)).map(|(r, s)| json!([r, s])).collect::<Vec<_>>(),
           "meaning": "pad_inserts_before INSERTs into another table advance the database-wide row-id counter; CREATE TABLE h (id INT [PRIMARY KEY], v <type>, w INT); INSERT row A and row B with values of ins[0], ins[1] bytes, ids chosen relative to their internal row ids per align (0 own, 1 swapped, 2 disjoint); then UPDATE h SET v = <value of s bytes> WHERE id = <id of row r> for every [r, s] of upd"})
}
/// run the histories of one unit in one database (one table per history); returns violations as (hist idx, steps executed, sig, expected, observed)
fn run_multi(scratch: &std::path::Path, m: &MultiUnit, name: &str, pad: usize) -> Vec<(usize, usize, usize, String, String, String)> {
    let mut out = Vec::new();
    let mut t = match TestDb::create(scratch, name) {
        Ok(t) => t,
        Err(e) => {
            out.push((0, 0, 0, format!("C11/{}/-/{}/multi/now/setup-error", m.tysig, path_name(m.param)), "database can be created".into(), e));
            return out;
        }
    };
    // INSERT attempts so far in this database: the next internal row id is attempts + 1
    let mut attempts = 0usize;
    if pad > 0 {
        let _ = run(t.db(), "CREATE TABLE pad (id INT)", None);
        for i in 0..pad {
            let _ = run(t.db(), &format!("INSERT INTO pad VALUES ({i})"), None);
            attempts += 1;
        }
    }
    // model: per history the expected value of both rows
    let mut alive: Vec<(usize, usize, [OV; 2], [usize; 2], [usize; 2])> = Vec::new();
    let check = |db: &Database, table: &str, model: &[OV; 2], sizes: &[usize; 2], ids: &[usize; 2], written: Option<usize>| -> Option<(String, String, String, String)> {
        for row in 0..2 {
            let id = ids[row];
            let q = format!("SELECT * FROM {table} WHERE id = {id}");
            let prefix = match written {
                Some(w) if w == row => "",
                Some(_) => "other-row-",
                None => "",
            };
            let cls = szc_of(sizes[row]).to_string();
            let exp = format!("row {id} = {}", show(&model[row]));
            let bad = match run(db, &q, None) {
                Out::Rows(rows) => {
                    if rows.is_empty() {
                        Some(("row-missing".to_string(), format!("{q} => no row")))
                    } else if rows.len() > 1 {
                        Some(("row-duplicated".to_string(), format!("{q} => {} rows", rows.len())))
                    } else if rows[0].len() != 3 {
                        Some(("value-changed".to_string(), format!("{q} => {} columns", rows[0].len())))
                    } else if let Some(w) = judge(&[Exp::V(model[row].clone())], &rows[0][1]) {
                        Some((w.to_string(), format!("{q} => v={}", show(&rows[0][1]))))
                    } else if !ov_eq(&rows[0][0], &OV::Int(id as i64)) || !ov_eq(&rows[0][2], &OV::Int(id as i64 * 7 + 1)) {
                        Some(("neighbor-changed".to_string(), format!("{q} => id={} w={}", show(&rows[0][0]), show(&rows[0][2]))))
                    } else {
                        None
                    }
                }
                Out::Err(e) => Some(("error".to_string(), format!("{q} => Err({})", vcore::util::clip(&e, 300)))),
                Out::Panic(p) => Some(("panic".to_string(), format!("{q} => PANIC({})", vcore::util::clip(&p, 300)))),
                _ => Some(("error".to_string(), format!("{q} => no row set"))),
            };
            if let Some((w, o)) = bad {
                return Some((cls, format!("{prefix}{w}"), exp, o));
            }
        }
        None
    };
    for (hi, h) in m.hists.iter().enumerate() {
        let table = format!("h{hi}");
        let ddl = format!("CREATE TABLE {table} (id INT{}, v {}, w INT)", if m.pk { " PRIMARY KEY" } else { "" }, m.ddl);
        if let Out::Err(e) | Out::Panic(e) = run(t.db(), &ddl, None) {
            out.push((hi, 0, attempts, format!("C11/{}/-/{}/multi/now/setup-error", m.tysig, path_name(m.param)), "table can be created".into(), format!("{ddl}: {e}")));
            return out;
        }
        let pad_here = attempts;
        let rid = [attempts + 1, attempts + 2];
        let ids: [usize; 2] = match h.align {
            0 => rid,
            1 => [rid[1], rid[0]],
            _ => [rid[0] + 500_000, rid[1] + 500_000],
        };
        let mut model: [OV; 2] = [OV::Null, OV::Null];
        let mut sizes = h.ins;
        let mut steps = 0usize;
        let mut diverged = false;
        let pattern = |steps: usize| hist_pattern(&Hist { align: h.align, ins: h.ins, upd: h.upd.iter().take(steps.saturating_sub(2)).cloned().collect() }, m.pk);
        // step list: (is_update, row, size)
        let mut ops: Vec<(bool, usize, usize)> = vec![(false, 0, h.ins[0]), (false, 1, h.ins[1])];
        ops.extend(h.upd.iter().map(|(r, s)| (true, *r, *s)));
        for (k, (upd, row, n)) in ops.iter().enumerate() {
            let (lit, val) = multi_value(m.blob, *n, (hi * 16 + k) as u64 + 100);
            let id = ids[*row];
            if !*upd {
                attempts += 1;
            }
            let sql_p;
            let res = if *upd {
                if m.param {
                    sql_p = format!("UPDATE {table} SET v = ? WHERE id = {id}");
                    run(t.db(), &sql_p, Some(&[val.clone()]))
                } else {
                    sql_p = format!("UPDATE {table} SET v = <{n}-byte literal> WHERE id = {id}");
                    run(t.db(), &format!("UPDATE {table} SET v = {lit} WHERE id = {id}"), None)
                }
            } else if m.param {
                sql_p = format!("INSERT INTO {table} VALUES ({id}, ?, {})", id * 7 + 1);
                run(t.db(), &sql_p, Some(&[val.clone()]))
            } else {
                sql_p = format!("INSERT INTO {table} VALUES ({id}, <{n}-byte literal>, {})", id * 7 + 1);
                run(t.db(), &format!("INSERT INTO {table} VALUES ({id}, {lit}, {})", id * 7 + 1), None)
            };
            steps = k + 1;
            let wrote = match res {
                Out::Aff(1) => None,
                Out::Aff(n) => Some(("error".to_string(), format!("{sql_p} => {n} rows affected"))),
                Out::Err(e) => Some(("error".to_string(), format!("{sql_p} => Err({})", vcore::util::clip(&e, 300)))),
                Out::Panic(p) => Some(("panic".to_string(), format!("{sql_p} => PANIC({})", vcore::util::clip(&p, 300)))),
                _ => Some(("error".to_string(), format!("{sql_p} => unexpected result"))),
            };
            if let Some((w, o)) = wrote {
                out.push((hi, steps, pad_here, format!("C11/{}/{}/{}/{}/now/{}", m.tysig, szc_of(*n), path_name(m.param), pattern(steps), w), format!("statement succeeds; row {id} = {}", show(&val)), o));
                diverged = true;
                break;
            }
            model[*row] = val;
            sizes[*row] = *n;
            if k >= 1 {
                if let Some((cls, w, e, o)) = check(t.db(), &table, &model, &sizes, &ids, Some(*row)) {
                    out.push((hi, steps, pad_here, format!("C11/{}/{}/{}/{}/now/{}", m.tysig, cls, path_name(m.param), pattern(steps), w), e, o));
                    diverged = true;
                    break;
                }
            }
        }
        if !diverged {
            alive.push((hi, pad_here, model, sizes, ids));
        }
        // an INSERT that was never attempted (history cut short) still has to keep later positions stable
        let done_inserts = ops.iter().take(steps).filter(|o| !o.0).count();
        for i in done_inserts..2 {
            let _ = run(t.db(), &format!("INSERT INTO {table} VALUES ({}, NULL, 0)", 900_000 + i), None);
            attempts += 1;
        }
        let _ = steps;
    }
    match t.reopen() {
        Err(e) => out.push((0, 0, 0, format!("C11/{}/-/{}/multi/reopen/{}", m.tysig, path_name(m.param), if e.starts_with("PANIC") { "panic" } else { "error" }), "database reopens".into(), e)),
        Ok(()) => {
            for (hi, pad_here, model, sizes, ids) in &alive {
                let h = &m.hists[*hi];
                if let Some((cls, w, e, o)) = check(t.db(), &format!("h{hi}"), model, sizes, ids, None) {
                    out.push((*hi, 2 + h.upd.len(), *pad_here, format!("C11/{}/{}/{}/{}/reopen/{}", m.tysig, cls, path_name(m.param), hist_pattern(h, m.pk), w), e, o));
                }
            }
        }
    }
    out
}
fn multi_units(thorough: bool) -> Vec<(String, MultiUnit)> {
    let all_hists = multi_hists(thorough);
    let mut v = Vec::new();
    let mut tys: Vec<(&'static str, &'static str, bool, Vec<bool>)> = vec![("text", "TEXT", false, vec![false, true]), ("blob", "BLOB", true, vec![true])];
    if thorough {
        tys = vec![("text", "TEXT", false, vec![false, true]), ("blob", "BLOB", true, vec![false, true]), ("varchar(30000)", "VARCHAR(30000)", false, vec![true])];
    }
    for (sig, ddl, blob, paths) in tys {
        for pk in [true, false] {
            for &param in &paths {
                // without a PRIMARY KEY the id values play no role for the chunk keys: one alignment only
                let hists: Vec<Hist> = all_hists.iter().filter(|h| if pk { thorough || h.align < 2 } else { h.align == 0 }).cloned().collect();
                for (ci, chunk) in hists.chunks(70).enumerate() {
                    v.push((format!("multi_{}_{}_{}_{}", sig.replace(['(', ')'], "_"), if pk { "pk" } else { "nopk" }, path_name(param), ci), MultiUnit { tysig: sig, ddl, blob, pk, param, hists: chunk.to_vec() }));
                }
            }
        }
    }
    v
}

struct C11;

fn explore_unit(ctx: &Ctx, rep: &mut Reporter, u: &Unit, uname: &str, seen_sig: &mut BTreeMap<String, u32>) {
    let all: BTreeSet<usize> = (0..u.cases.len()).collect();
    let mut only = all.clone();
    let mut removed: Vec<Failure> = Vec::new();
    let mut reruns = 0u64;
    let res = loop {
        let r = run_unit(&ctx.scratch, u, &only, uname, u.update);
        if let Some(e) = &r.setup_err {
            rep.violation("C11", "setup", &format!("C11/{}/-/{}/{}/now/setup-error", u.ty.sig, path_name(u.param), if u.update { "update" } else { "insert" }), || batch_json(u, &only), "table of this column type can be created", e);
            return;
        }
        match r.panicked {
            Some(ci) => {
                // keep the panic verdict (if any was recorded for ci), drop the rest of this damaged run
                removed.extend(r.failures.iter().filter(|f| f.case == ci).cloned());
                if r.failures.iter().all(|f| f.case != ci) {
                    rep.count("update_setup_panicked_cases_skipped", 1);
                }
                only.remove(&ci);
                reruns += 1;
                if reruns > 40 {
                    rep.note("more than 40 panicking cases in one batch: batch abandoned");
                    rep.pruned(only.len() as u64);
                    break r;
                }
            }
            None => break r,
        }
    };
    rep.count("batch_reruns_after_panic", reruns);
    let ncases = all.len() as u64;
    // each case is read now and after reopen, by lookup / scan / projection
    rep.bulk(ncases * 2, ncases * 2);
    rep.count(&format!("cases_{}_{}", u.ty.sig, path_name(u.param)), ncases * 2);
    rep.count(&format!("cases_{}_{}", if u.update { "update" } else { "insert" }, if u.pk { "pk" } else { "nopk" }), ncases * 2);
    rep.count("values_written", res.written);
    rep.count("toast_rows_written", res.toast_rows);
    rep.count("out_of_domain_values_rejected_cleanly", res.rejected);
    rep.count("undocumented_literal_forms_not_parsed", res.unparsed);
    rep.count("update_cases_skipped_initial_insert_failed", res.setup_skipped);
    rep.count("handles_reopened_after_panic", res.handle_refreshed);
    rep.count("databases_reopened", 1);
    if u.update {
        for c in &u.cases {
            rep.outcome(&op_name(u, *c));
        }
    }
    let mut failures = removed;
    failures.extend(res.failures.iter().cloned());
    let failed_cases: BTreeSet<usize> = failures.iter().map(|f| f.case).collect();
    rep.count("cases_with_violation", failed_cases.len() as u64);
    // every failing case (except panics, which already got a batch of their own) is re-executed in a table
    // of its own inside ONE fresh database
    let iso_cases: BTreeSet<usize> = if u.update { BTreeSet::new() } else { failures.iter().filter(|f| f.what != "panic").map(|f| f.case).take(400).collect() };
    let mut iso_sigs: BTreeSet<String> = BTreeSet::new();
    if !iso_cases.is_empty() {
        let mut todo = iso_cases.clone();
        for _ in 0..8 {
            let r = run_unit(&ctx.scratch, u, &todo, &format!("{uname}_iso"), true);
            rep.count("isolation_databases", 1);
            iso_sigs.extend(r.failures.iter().map(|x| sig_of(u, x)));
            match r.panicked {
                Some(ci) if r.setup_err.is_none() => {
                    todo.remove(&ci);
                }
                _ => break,
            }
        }
    }
    let _ = &seen_sig;
    for f in &failures {
        let sig = sig_of(u, f);
        rep.outcome(&format!("{}:{}", f.when, f.what));
        if f.what == "panic" || iso_sigs.contains(&sig) || !iso_cases.contains(&f.case) {
            rep.count("violations_confirmed_in_isolation", (f.what != "panic" && iso_cases.contains(&f.case)) as u64);
            rep.violation("C11", "roundtrip", &sig, || case_json(u, f.case), &f.expected, &f.observed);
        } else {
            rep.count("violations_only_in_batch", 1);
            rep.violation("C11", "roundtrip", &format!("{sig}/batch-only"), || batch_json(u, &only), &f.expected, &f.observed);
        }
    }
    for (when, what, e, o) in &res.proj {
        let sig = format!("C11/{}/all/{}/{}/{}/{}", u.ty.sig, path_name(u.param), if u.update { "update" } else { "insert" }, when, what);
        rep.outcome(&format!("{when}:{what}"));
        rep.count("unfiltered_projection_batches_wrong", 1);
        rep.violation("C11", "projection", &sig, || batch_json(u, &only), e, o);
    }
    rep.count("unfiltered_projection_batches_checked", if u.update { 0 } else { 2 });
}

fn units<'a>(tys: &'a [Ty], thorough: bool) -> Vec<(String, Unit<'a>)> {
    let mut v = Vec::new();
    for ty in tys {
        for update in [false, true] {
            for param in [false, true] {
                let cases = build_cases(ty, param, update, thorough);
                if cases.is_empty() {
                    continue;
                }
                // heavy batches are split so that workers stay balanced
                let weight: usize = cases.iter().map(|c| 2000 + ty.vals[c.1].bytes + c.0.map(|f| ty.vals[f].bytes).unwrap_or(0)).sum();
                let parts = (weight / 1_500_000).clamp(1, 8);
                // quick tier: README aliases, JSON (same implementation as JSONB) and CHAR(5000) on the keyed table only
                let pk_only = !thorough && (["integer", "int2", "int4", "int8", "float", "float4", "float8", "double-precision", "bool", "json", "char(5000)"].contains(&ty.sig.as_str()));
                for pk in [true, false] {
                    if pk_only && !pk {
                        continue;
                    }
                    for part in 0..parts {
                        let sub: Vec<(Option<usize>, usize)> = cases.iter().enumerate().filter(|(i, _)| i % parts == part).map(|(_, c)| *c).collect();
                        if sub.is_empty() {
                            continue;
                        }
                        let name = format!("{}_{}_{}_{}_{}", ty.sig.replace(['(', ')', ','], "_"), if pk { "pk" } else { "nopk" }, path_name(param), if update { "upd" } else { "ins" }, part);
                        v.push((name, Unit { ty, pk, param, update, cases: sub }));
                    }
                }
            }
        }
    }
    v
}

impl Check for C11 {
    fn specs(&self) -> Vec<Spec> {
        let mut s = Spec::new(
            "C11",
            "exploration",
            "exhaustive product: every column type CREATE TABLE accepts and the README documents (BOOLEAN, SMALLINT, INT, BIGINT, REAL, DOUBLE, DECIMAL, CHAR(n), VARCHAR(n), TEXT, BLOB, DATE, TIME, TIMESTAMP, TIMESTAMPTZ, INTERVAL, UUID, JSON, JSONB, VECTOR(1/2/70/300), MACADDR, INET, POINT, BOX, CIRCLE and the README aliases INTEGER, INT2, INT4, INT8, FLOAT, FLOAT4, FLOAT8, DOUBLE PRECISION, BOOL) x its boundary value set (type min/max and the neighbours outside, +-0, NaN, +-inf, subnormal, empty, 1 char, multibyte, quotes, NUL, a BLOB that is valid UTF-8, a BLOB with 00/FF, a 17-byte BLOB starting with FE, byte sizes {0,1,999,1000,1001,3999,4000,4001,8001,20000} (+30 more sizes and 2 MiB in thorough) around TOAST_THRESHOLD=1000 / TOAST_CHUNK_SIZE=4000, TEXT with one 1/2/3/4-byte character at every alignment (0..width-1 of its bytes before the boundary) to chunk boundary 1 (2, 3 and 5 in thorough) and 12 KB (24 KB) runs of 2/3/4-byte characters after 0..width-1 ASCII bytes that cross boundaries 1-3 (1-6), together at every alignment, date/time range ends, UUID all-0/all-F, nested JSON, NULL) x {SQL literal, execute_with_params with the matching OwnedValue variant} x {INSERT, UPDATE of an existing row: every ordered pair of size-class representatives {inline 10, inline 1000, 1 chunk 1001, 1 chunk 4000, 2 chunks, 3 chunks, 5 chunks}, equal-size rewrites, every value over an ordinary / a two-chunk / a NULL cell} x {PRIMARY KEY, no key} x {read now, read after reopen}; each case is read by id lookup, in the full scan, and by the single-column projection with and without WHERE. A case is distinct by construction (one row of one batch); all cases are non-trivial (a value is written and read).",
        );
        s.assumptions = &[
            "expected values are computed by the harness (own civil-date arithmetic, own JSON tree; JSONB read-backs are decoded with turdb::records::JsonbView, which is trusted)",
            "REAL accepts the f32-rounded value as well as the exact one; CHAR(n) accepts blank padding; a value outside the declared width/length/dimension may be rejected with an error or kept exactly; a DECIMAL may come back as a Float that prints as the same decimal",
            "a parse error for a literal spelling the README does not document (x'..' hex, '[..]' vectors, exponent floats, interval strings, JSON text) is not a verdict",
            "ARRAY / ENUM / COMPOSITE / range types: `INT[]` does not parse, no OwnedValue variant or literal form exists for ranges: not covered",
        ];
        s.cap_quick_s = 100;
        s.cap_thorough_s = 1500;
        vec![s]
    }

    fn run(&self, ctx: &Ctx, rep: &mut Reporter) {
        std::env::set_var("RUST_BACKTRACE", "0");
        let thorough = !ctx.quick();
        let tys = types(thorough);
        let only_ty = ctx.opt("only");
        let us = units(&tys, thorough);
        rep.bound("types", json!(tys.iter().map(|t| t.sig.clone()).collect::<Vec<_>>()));
        rep.bound("values_per_type", json!(tys.iter().map(|t| (t.sig.clone(), t.vals.len())).collect::<BTreeMap<_, _>>()));
        rep.bound("batches", json!(us.len()));
        rep.bound("toast_threshold_bytes", json!(TOAST_THRESHOLD));
        rep.bound("toast_chunk_bytes", json!(TOAST_CHUNK));
        for k in ["toast_rows_written", "values_written", "databases_reopened", "out_of_domain_values_rejected_cleanly"] {
            rep.expect_nonzero(k);
        }
        // deterministic balanced partition (longest-processing-time first on an estimated weight); VERIF_SEED only
        // rotates which worker takes which bucket
        let mus = multi_units(thorough);
        rep.bound("multi_row_histories", json!({"sizes": multi_sizes(thorough), "histories_per_table_kind": multi_hists(thorough).len(), "databases": mus.len()}));
        let mut items: Vec<(u64, usize)> = Vec::new(); // (weight, index: < us.len() = unit, else multi unit)
        for (i, (_, u)) in us.iter().enumerate() {
            let bytes: usize = u.cases.iter().map(|c| u.ty.vals[c.1].bytes + c.0.map(|f| u.ty.vals[f].bytes).unwrap_or(0)).sum();
            let per_case = if u.update { 30 } else { 6 };
            items.push((400 + (u.cases.len() * per_case) as u64 + (bytes / 20_000) as u64, i));
        }
        for (i, (_, m)) in mus.iter().enumerate() {
            items.push((400 + m.hists.len() as u64 * 45, us.len() + i));
        }
        items.sort_by(|a, b| b.0.cmp(&a.0).then(a.1.cmp(&b.1)));
        let nb = ctx.workers.max(1);
        let mut load = vec![0u64; nb];
        let mut bucket_of: BTreeMap<usize, usize> = BTreeMap::new();
        for (w, idx) in &items {
            let b = (0..nb).min_by_key(|b| (load[*b], *b)).unwrap();
            load[b] += *w;
            bucket_of.insert(*idx, b);
        }
        let my_bucket = (ctx.worker + (ctx.seed % nb as u64) as usize) % nb;
        let mut seen_sig: BTreeMap<String, u32> = BTreeMap::new();
        for (i, (name, u)) in us.iter().enumerate() {
            if bucket_of.get(&i) != Some(&my_bucket) {
                continue;
            }
            if let Some(o) = only_ty {
                if u.ty.sig != o {
                    continue;
                }
            }
            if ctx.expired() {
                rep.capped("deadline before all batches ran");
                return;
            }
            rep.begin_case(name);
            explore_unit(ctx, rep, u, name, &mut seen_sig);
            if i < 3 {
                rep.sample(|| batch_json(u, &(0..u.cases.len().min(4)).collect()));
            }
        }
        // multi-row histories
        for (i, (name, m)) in mus.iter().enumerate() {
            if bucket_of.get(&(us.len() + i)) != Some(&my_bucket) {
                continue;
            }
            if let Some(o) = only_ty {
                if m.tysig != o && o != "multi" {
                    continue;
                }
            }
            if ctx.expired() {
                rep.capped("deadline before all multi-row batches ran");
                return;
            }
            rep.begin_case(name);
            let viol = run_multi(&ctx.scratch, m, name, 0);
            let n = m.hists.len() as u64;
            rep.bulk(n, n);
            rep.count("multi_row_histories", n);
            rep.count("multi_row_histories_diverged", viol.len() as u64);
            for (hi, steps, pad, sig, e, o) in &viol {
                rep.outcome(&format!("multi:{}", sig.rsplit('/').next().unwrap_or("")));
                rep.violation("C11", "multi-row", sig, || multi_case_json(m, &m.hists[*hi], *steps, *pad), e, o);
            }
        }
    }

    fn replay(&self, ctx: &Ctx, case: &Value, rep: &mut Reporter) {
        std::env::set_var("RUST_BACKTRACE", "0");
        let tsig = case["type"].as_str().unwrap_or("");
        if case["mode"].as_str() == Some("multi") {
            let (sig, ddl, blob): (&'static str, &'static str, bool) = match tsig {
                "blob" => ("blob", "BLOB", true),
                "varchar(30000)" => ("varchar(30000)", "VARCHAR(30000)", false),
                _ => ("text", "TEXT", false),
            };
            let ins: Vec<usize> = case["ins"].as_array().map(|a| a.iter().map(|x| x.as_u64().unwrap_or(0) as usize).collect()).unwrap_or_default();
            let upd: Vec<(usize, usize)> = case["upd"].as_array().map(|a| a.iter().map(|x| (x[0].as_u64().unwrap_or(0) as usize, x[1].as_u64().unwrap_or(0) as usize)).collect()).unwrap_or_default();
            if ins.len() != 2 {
                rep.note("replay: bad multi case");
                return;
            }
            let m = MultiUnit { tysig: sig, ddl, blob, pk: case["pk"].as_bool().unwrap_or(true), param: case["path"].as_str() == Some("param"), hists: vec![Hist { align: case["align"].as_u64().unwrap_or(0) as u8, ins: [ins[0], ins[1]], upd }] };
            let viol = run_multi(&ctx.scratch, &m, "replay_multi", case["pad_inserts_before"].as_u64().unwrap_or(0) as usize);
            rep.bulk(1, 1);
            for (_, _, _, sig, e, o) in &viol {
                rep.violation("C11", "multi-row", sig, || case.clone(), e, o);
            }
            return;
        }
        let tys = types(true);
        let Some(ty) = tys.iter().find(|t| t.sig == tsig) else {
            rep.note("replay: unknown type");
            return;
        };
        let pk = case["pk"].as_bool().unwrap_or(true);
        let param = case["path"].as_str() == Some("param");
        let update = case["op"].as_str() == Some("update");
        let find = |c: &str| ty.vals.iter().position(|v| v.class == c);
        let mut cases: Vec<(Option<usize>, usize)> = Vec::new();
        if case["mode"].as_str() == Some("batch") {
            for c in case["cases"].as_array().cloned().unwrap_or_default() {
                let f = c[0].as_str().and_then(|s| find(s));
                if let Some(t) = c[1].as_str().and_then(|s| find(s)) {
                    cases.push((f, t));
                }
            }
        } else {
            let f = case["from"].as_str().and_then(|s| find(s));
            if let Some(t) = case["value"].as_str().and_then(|s| find(s)) {
                cases.push((f, t));
            }
        }
        if cases.is_empty() {
            rep.note("replay: unknown value class");
            return;
        }
        let u = Unit { ty, pk, param, update, cases };
        let all: BTreeSet<usize> = (0..u.cases.len()).collect();
        let batch = case["mode"].as_str() == Some("batch");
        let r = run_unit(&ctx.scratch, &u, &all, "replay", batch && update);
        rep.bulk(u.cases.len() as u64 * 2, u.cases.len() as u64 * 2);
        if let Some(e) = &r.setup_err {
            rep.violation("C11", "setup", &format!("C11/{}/-/{}/{}/now/setup-error", u.ty.sig, path_name(u.param), if u.update { "update" } else { "insert" }), || case.clone(), "table can be created", e);
        }
        for f in &r.failures {
            let sig = sig_of(&u, f);
            let sig = if batch { format!("{sig}/batch-only") } else { sig };
            rep.violation("C11", "roundtrip", &sig, || case.clone(), &f.expected, &f.observed);
        }
        for (when, what, e, o) in &r.proj {
            let sig = format!("C11/{}/all/{}/{}/{}/{}", u.ty.sig, path_name(u.param), if u.update { "update" } else { "insert" }, when, what);
            rep.violation("C11", "projection", &sig, || case.clone(), e, o);
        }
    }
}

fn main() {
    vcore::main(&C11)
}
