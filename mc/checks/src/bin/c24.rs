//! C24 — vector distance ordering is exact (exhaustive input enumeration).
//!
//! (a) kernels of `src/hnsw/distance.rs`: every dimension 1..=70 (thorough: also
//!     127,128,129,1536) x every ordered pair of a per-dimension vector set, every
//!     public kernel (dispatching entry points, scalar bodies, AVX2 bodies)
//!     against an f64 definition written here, within a stated rounding bound.
//! (b) SQL: every multiset of <= 5 (quick) / <= 6 (thorough) vectors of a 5-vector
//!     domain, dims 1,3,8,9,70, every query vector of the domain, `<->` and `<=>`,
//!     `ORDER BY .. [LIMIT k]` for k in 1..=n and without LIMIT; distances are
//!     recomputed by the harness in f64 from the returned vectors.
//!     A second, large-magnitude domain (components +-2e19..1e20: ordinary f32 values whose squared
//!     differences exceed the f32 range, plus a pair whose distances differ by 2e-8 relative, i.e.
//!     below f32 resolution) is swept for dims 8, 9, 16 (thorough: also 3, 70), tables of <= 3
//!     (thorough <= 4) rows.  For `<->` the order and the top-k choice are demanded exactly
//!     wherever the f64 distances differ by more than f64 rounding (layer `*-exact`).
use checks::sqlh::TestDb;
use turdb::hnsw::distance as dk;
use turdb::hnsw::DistanceFunction;
use turdb::OwnedValue;
use vcore::{json, Check, Ctx, Reporter, Spec, Value};

struct C24;

const EPS: f64 = f32::EPSILON as f64; // 2^-23
const F32_MAX: f64 = f32::MAX as f64;
const F32_TINY: f64 = 1.4012984643e-45; // smallest subnormal

fn dim_class(d: usize) -> &'static str {
    match d {
        0..=7 => "<8",
        8 => "8",
        9..=15 => "9..15",
        16 => "16",
        _ => ">16",
    }
}

// ------------------------------------------------------------------ kernel vectors
fn kernel_vectors(d: usize) -> Vec<(&'static str, Vec<f32>)> {
    let axis = |i: usize, s: f32| {
        let mut v = vec![0.0f32; d];
        v[i] = s;
        v
    };
    let mut out: Vec<(&'static str, Vec<f32>)> = Vec::new();
    out.push(("zero", vec![0.0; d]));
    out.push(("axis-first", axis(0, 1.0)));
    out.push(("axis-last", axis(d - 1, 1.0)));
    out.push(("axis-mid", axis(d / 2, 1.0)));
    out.push(("all-equal", vec![0.75; d]));
    out.push(("alt-sign", (0..d).map(|i| if i % 2 == 0 { 1.0 } else { -1.0 }).collect()));
    out.push(("large", vec![1e18; d]));
    out.push(("large-one", {
        let mut v = vec![1.0f32; d];
        v[d / 2] = 1e18;
        v
    }));
    out.push(("small", vec![1e-18; d]));
    out.push(("mixed-mag", (0..d).map(|i| [1e18f32, 1e-18, 1.0][i % 3]).collect()));
    out.push(("ramp", (0..d).map(|i| (i + 1) as f32).collect()));
    out.push(("ramp-rev", (0..d).map(|i| (d - i) as f32).collect())); // permutation of ramp: ties in norm
    out.push(("neg-ramp", (0..d).map(|i| -((i + 1) as f32) * 0.5).collect()));
    out.push(("tie-34", {
        let mut v = vec![0.0f32; d];
        v[0] = 3.0;
        v[d - 1] += 4.0;
        v
    }));
    out.push(("tie-43", {
        let mut v = vec![0.0f32; d];
        v[0] = 4.0;
        v[d - 1] += 3.0;
        v
    }));
    // keep first occurrence of each distinct vector (small d collapses several)
    let mut seen: Vec<Vec<u32>> = Vec::new();
    out.retain(|(_, v)| {
        let bits: Vec<u32> = v.iter().map(|x| x.to_bits()).collect();
        if seen.contains(&bits) {
            false
        } else {
            seen.push(bits);
            true
        }
    });
    out
}

#[derive(Clone, Copy, PartialEq, Debug)]
enum Kind {
    Sq,
    L2,
    Dot,
    NegDot,
    Cos,
}

struct Kernel {
    name: &'static str,
    kind: Kind,
    f: Box<dyn Fn(&[f32], &[f32]) -> f32 + Sync>,
    simd: bool,
}

fn kernels() -> Vec<Kernel> {
    let mut k: Vec<Kernel> = Vec::new();
    let l2 = dk::select_distance_fn(DistanceFunction::L2);
    let cos = dk::select_distance_fn(DistanceFunction::Cosine);
    let ip = dk::select_distance_fn(DistanceFunction::InnerProduct);
    let l2sq = dk::select_squared_distance_fn(DistanceFunction::L2);
    let cos2 = dk::select_squared_distance_fn(DistanceFunction::Cosine);
    let ip2 = dk::select_squared_distance_fn(DistanceFunction::InnerProduct);
    let mut add = |name: &'static str, kind: Kind, simd: bool, f: Box<dyn Fn(&[f32], &[f32]) -> f32 + Sync>| k.push(Kernel { name, kind, f, simd });
    add("euclidean_squared", Kind::Sq, false, Box::new(|a, b| dk::euclidean_squared(a, b)));
    add("select_distance_fn(L2)", Kind::L2, false, Box::new(move |a, b| l2(a, b)));
    add("select_distance_fn(Cosine)", Kind::Cos, false, Box::new(move |a, b| cos(a, b)));
    add("select_distance_fn(InnerProduct)", Kind::NegDot, false, Box::new(move |a, b| ip(a, b)));
    add("select_squared_distance_fn(L2)", Kind::Sq, false, Box::new(move |a, b| l2sq(a, b)));
    add("select_squared_distance_fn(Cosine)", Kind::Cos, false, Box::new(move |a, b| cos2(a, b)));
    add("select_squared_distance_fn(InnerProduct)", Kind::NegDot, false, Box::new(move |a, b| ip2(a, b)));
    add("euclidean_squared_scalar", Kind::Sq, false, Box::new(|a, b| dk::euclidean_squared_scalar(a, b)));
    add("euclidean_scalar", Kind::L2, false, Box::new(|a, b| dk::euclidean_scalar(a, b)));
    add("dot_product_scalar", Kind::Dot, false, Box::new(|a, b| dk::dot_product_scalar(a, b)));
    add("inner_product_scalar", Kind::NegDot, false, Box::new(|a, b| dk::inner_product_scalar(a, b)));
    add("cosine_scalar", Kind::Cos, false, Box::new(|a, b| dk::cosine_scalar(a, b)));
    #[cfg(target_arch = "x86_64")]
    {
        if std::is_x86_feature_detected!("avx2") && std::is_x86_feature_detected!("fma") {
            add("euclidean_squared_avx2", Kind::Sq, true, Box::new(|a, b| unsafe { dk::euclidean_squared_avx2(a, b) }));
            add("euclidean_avx2", Kind::L2, true, Box::new(|a, b| unsafe { dk::euclidean_avx2(a, b) }));
            add("dot_product_avx2", Kind::Dot, true, Box::new(|a, b| unsafe { dk::dot_product_avx2(a, b) }));
            add("inner_product_avx2", Kind::NegDot, true, Box::new(|a, b| unsafe { dk::inner_product_avx2(a, b) }));
            add("cosine_avx2", Kind::Cos, true, Box::new(|a, b| unsafe { dk::cosine_avx2(a, b) }));
        }
    }
    k
}

/// Verdict of one kernel value against the f64 definition.
enum KV {
    Ok,
    /// nothing demanded (zero vector under cosine, exact value outside the f32 range)
    Free(&'static str),
    Bad { want: f64, tol: f64 },
}

fn judge(kind: Kind, a: &[f32], b: &[f32], got: f32) -> KV {
    let d = a.len() as f64;
    let g = got as f64;
    let within = |want: f64, tol: f64| {
        if g.is_finite() && (g - want).abs() <= tol {
            KV::Ok
        } else {
            KV::Bad { want, tol }
        }
    };
    match kind {
        Kind::Sq | Kind::L2 => {
            let s: f64 = a.iter().zip(b).map(|(x, y)| (*x as f64 - *y as f64).powi(2)).sum();
            if s * (1.0 + 4.0 * d * EPS) > F32_MAX {
                return KV::Free("sum-of-squares-outside-f32-range");
            }
            if kind == Kind::Sq {
                within(s, 4.0 * d * EPS * s + d * F32_TINY)
            } else {
                let r = s.sqrt();
                within(r, 4.0 * d * EPS * r + (d * F32_TINY).sqrt())
            }
        }
        Kind::Dot | Kind::NegDot => {
            let dot: f64 = a.iter().zip(b).map(|(x, y)| *x as f64 * *y as f64).sum();
            let s: f64 = a.iter().zip(b).map(|(x, y)| (*x as f64 * *y as f64).abs()).sum();
            if s * (1.0 + 4.0 * d * EPS) > F32_MAX {
                return KV::Free("sum-of-products-outside-f32-range");
            }
            let want = if kind == Kind::Dot { dot } else { -dot };
            within(want, 4.0 * d * EPS * s + d * F32_TINY)
        }
        Kind::Cos => {
            let na: f64 = a.iter().map(|x| (*x as f64).powi(2)).sum();
            let nb: f64 = b.iter().map(|x| (*x as f64).powi(2)).sum();
            if na == 0.0 || nb == 0.0 {
                return KV::Free("zero-vector-cosine-undefined");
            }
            if na * (1.0 + 4.0 * d * EPS) > F32_MAX || nb * (1.0 + 4.0 * d * EPS) > F32_MAX {
                return KV::Free("squared-norm-outside-f32-range");
            }
            let dot: f64 = a.iter().zip(b).map(|(x, y)| *x as f64 * *y as f64).sum();
            let want = 1.0 - dot / (na.sqrt() * nb.sqrt());
            within(want, 4.0 * (d + 2.0) * EPS)
        }
    }
}

fn kernel_pair(d: usize, vs: &[(&'static str, Vec<f32>)], i: usize, j: usize, ks: &[Kernel], rep: &mut Reporter) {
    let (ca, a) = (&vs[i].0, &vs[i].1);
    let (cb, b) = (&vs[j].0, &vs[j].1);
    for k in ks {
        let case = || json!({"kind": "kernel", "dim": d, "a": ca, "b": cb});
        match vcore::catch(|| (k.f)(a, b)) {
            Err(p) => rep.violation("C24", "kernel", &format!("C24/{}/{}/{}~{}/panic", k.name, dim_class(d), ca, cb), case, "a value", &p),
            Ok(got) => match judge(k.kind, a, b, got) {
                KV::Ok => rep.count("kernel_values_within_bound", 1),
                KV::Free(why) => {
                    rep.count(&format!("kernel_unconstrained:{why}"), 1);
                    rep.outcome(&format!("kernel-free:{why}:{}", if got.is_nan() { "nan".into() } else if got.is_infinite() { "inf".into() } else { format!("{got}") }));
                }
                KV::Bad { want, tol } => rep.violation(
                    "C24",
                    "kernel",
                    &format!("C24/{}/{}/{}~{}/exceeds-error-bound", k.name, dim_class(d), ca, cb),
                    case,
                    &format!("{want:e} +- {tol:e}"),
                    &format!("{got:e}"),
                ),
            },
        }
        if k.simd {
            rep.count(if d >= 8 { "simd_body_calls_dim>=8" } else { "simd_tail_only_calls_dim<8" }, 1);
            if d % 8 != 0 && d > 8 {
                rep.count("simd_body_plus_tail_calls", 1);
            }
        }
    }
}

fn kernel_nonfinite(d: usize, ks: &[Kernel], rep: &mut Reporter) {
    let ramp: Vec<f32> = (0..d).map(|i| (i + 1) as f32).collect();
    let specials: Vec<(&str, Vec<f32>)> = vec![
        ("nan-first", { let mut v = ramp.clone(); v[0] = f32::NAN; v }),
        ("nan-last", { let mut v = ramp.clone(); v[d - 1] = f32::NAN; v }),
        ("inf-last", { let mut v = ramp.clone(); v[d - 1] = f32::INFINITY; v }),
        ("neg-inf-mid", { let mut v = ramp.clone(); v[d / 2] = f32::NEG_INFINITY; v }),
        ("all-inf", vec![f32::INFINITY; d]),
        ("max", vec![f32::MAX; d]),
    ];
    for (cn, s) in &specials {
        for other in [&ramp, s] {
            for k in ks {
                for (x, y) in [(s, other), (other, s)] {
                    match vcore::catch(|| (k.f)(x, y)) {
                        Ok(v) => {
                            rep.count("kernel_nonfinite_calls", 1);
                            rep.outcome(&format!("nonfinite:{}", if v.is_nan() { "nan" } else if v.is_infinite() { "inf" } else { "finite" }));
                        }
                        Err(p) => rep.violation("C24", "kernel", &format!("C24/{}/{}/{}~ramp/panic", k.name, dim_class(d), cn), || json!({"kind": "kernel-nonfinite", "dim": d}), "a value (NaN/inf allowed)", &p),
                    }
                }
            }
        }
    }
}

fn kernel_dim(d: usize, ks: &[Kernel], rep: &mut Reporter) {
    let vs = kernel_vectors(d);
    for i in 0..vs.len() {
        for j in 0..vs.len() {
            kernel_pair(d, &vs, i, j, ks, rep);
            rep.case(vcore::util::hash_of(&("k", d, vs[i].0, vs[j].0)), !(i == 0 && j == 0));
        }
    }
    kernel_nonfinite(d, ks, rep);
}

// ------------------------------------------------------------------ SQL part
const SQL_DIMS: [usize; 5] = [1, 3, 8, 9, 70];
/// dimensions of the large-magnitude domain: the first lengths that fill one / more than one / two 8-lane
/// SIMD registers (3 = control below 8, 70 = many registers + tail: thorough only)
const HUGE_DIMS_QUICK: [usize; 3] = [8, 9, 16];
const HUGE_DIMS_THOROUGH: [usize; 5] = [8, 9, 16, 3, 70];

/// domain 0 = the moderate 5-vector domain, 1 = the large-magnitude domain
fn sql_domain(domain: u8, d: usize) -> Vec<(&'static str, Vec<f32>)> {
    if domain == 1 {
        return huge_domain(d);
    }
    moderate_domain(d)
}

/// Components of the 1e19..1e20 scale: every one is an ordinary f32 (max 3.4e38) and every L2 distance
/// between two vectors of the domain is an ordinary f64 (< 1e21), but the SQUARED differences (1e38..1e40)
/// exceed the f32 range, so an evaluation that accumulates in f32 sees +inf and cannot order them.  Plus a
/// pair (unit, unit-eps) whose distances from the origin differ by 2e-8 relative: far above f64 rounding,
/// below f32 resolution.
fn huge_domain(d: usize) -> Vec<(&'static str, Vec<f32>)> {
    let at = |i: usize, x: f32| {
        let mut v = vec![0.0f32; d];
        v[i] = x;
        v
    };
    let mut unit_eps = at(0, 1.0);
    unit_eps[d - 1] += 2e-4;
    vec![
        ("huge-3e19", at(0, 3e19)),
        ("huge-6e19", at(0, 6e19)),
        ("origin", vec![0.0; d]),
        ("huge-neg-5e19-last", at(d - 1, -5e19)),
        ("huge-all-2e19", vec![2e19; d]),
        ("huge-1e20-mid", at(d / 2, 1e20)),
        ("unit", at(0, 1.0)),
        ("unit-eps", unit_eps),
    ]
}

fn moderate_domain(d: usize) -> Vec<(&'static str, Vec<f32>)> {
    let mut e0 = vec![0.0f32; d];
    e0[0] = 1.0;
    let mut neg = vec![0.0f32; d];
    neg[0] = -1.0;
    let mut large = vec![0.0f32; d];
    large[0] = 1e18;
    if d > 1 {
        large[d - 1] = 1e-18;
    }
    let dense: Vec<f32> = if d == 1 { vec![0.5] } else { (0..d).map(|i| if i % 2 == 0 { 0.5 } else { -0.5 }).collect() };
    // zero sits in the middle of the domain order so that canonical / reversed insertion
    // orders place undefined-distance rows between defined ones
    vec![("axis", e0), ("neg-axis", neg), ("zero", vec![0.0; d]), ("large", large), ("dense-alt", dense)]
}

fn vlit(v: &[f32]) -> String {
    let parts: Vec<String> = v.iter().map(|x| format!("{}", x)).collect();
    format!("'[{}]'", parts.join(","))
}

fn l2_f64(a: &[f32], b: &[f32]) -> f64 {
    a.iter().zip(b).map(|(x, y)| (*x as f64 - *y as f64).powi(2)).sum::<f64>().sqrt()
}
fn cos_f64(a: &[f32], b: &[f32]) -> Option<f64> {
    let na: f64 = a.iter().map(|x| (*x as f64).powi(2)).sum();
    let nb: f64 = b.iter().map(|x| (*x as f64).powi(2)).sum();
    if na == 0.0 || nb == 0.0 {
        return None;
    }
    let dot: f64 = a.iter().zip(b).map(|(x, y)| *x as f64 * *y as f64).sum();
    Some(1.0 - dot / (na.sqrt() * nb.sqrt()))
}
fn dist(op: &str, a: &[f32], b: &[f32]) -> Option<f64> {
    if op == "<->" {
        Some(l2_f64(a, b))
    } else {
        cos_f64(a, b)
    }
}

/// all multisets (non-decreasing index lists) of size n over 0..m
fn multisets(m: usize, n: usize) -> Vec<Vec<usize>> {
    fn go(m: usize, n: usize, start: usize, cur: &mut Vec<usize>, out: &mut Vec<Vec<usize>>) {
        if cur.len() == n {
            out.push(cur.clone());
            return;
        }
        for i in start..m {
            cur.push(i);
            go(m, n, i, cur, out);
            cur.pop();
        }
    }
    let mut out = Vec::new();
    go(m, n, 0, &mut Vec::new(), &mut out);
    out
}

struct SqlCase {
    /// 0 moderate domain, 1 large-magnitude domain
    domain: u8,
    dim: usize,
    rows: Vec<usize>, // domain index per row, in insertion order (id = position + 1)
    hnsw: bool,
}

fn le_tol(a: f64, b: f64, dim: usize) -> bool {
    // a <= b up to rounding of the implementation's f32/f64 evaluation
    let tol = 4.0 * dim as f64 * EPS;
    a <= b + tol * b.abs().max(a.abs()) + 1e-300
}
fn eq_tol(a: f64, b: f64, dim: usize) -> bool {
    le_tol(a, b, dim) && le_tol(b, a, dim)
}

/// run every (op, q, k) of one table; returns number of queries
fn sql_table(ctx: &Ctx, db: &TestDb, tname: &str, c: &SqlCase, only: Option<(&str, usize)>, rep: &mut Reporter) -> u64 {
    let dom = sql_domain(c.domain, c.dim);
    let n = c.rows.len();
    let opname = |op: &str| if c.hnsw { format!("{op}+hnsw") } else { op.to_string() };
    let case = |op: &str, q: usize| json!({"kind": "sql", "domain": c.domain, "dim": c.dim, "rows": c.rows, "rows_named": c.rows.iter().map(|&i| dom[i].0).collect::<Vec<_>>(), "hnsw": c.hnsw, "op": op, "q": q, "q_named": dom[q.min(dom.len() - 1)].0});
    let setup_fail = |rep: &mut Reporter, what: &str, obs: &str| {
        rep.violation("C24", "sql-setup", &format!("C24/setup/{}/{}/{}", dim_class(c.dim), what, if obs.starts_with("PANIC") { "panic" } else { "error" }), || case("-", 0), "statement succeeds", obs);
    };
    let r = db.exec(&format!("CREATE TABLE {tname} (id BIGINT PRIMARY KEY, v VECTOR({}))", c.dim));
    if !r.ok() {
        setup_fail(rep, "create-table", &r.show());
        return 0;
    }
    if c.hnsw {
        let r = db.exec(&format!("CREATE INDEX ix_{tname} ON {tname} USING HNSW (v)"));
        if !r.ok() {
            setup_fail(rep, "create-hnsw-index", &r.show());
            return 0;
        }
    }
    for (i, &di) in c.rows.iter().enumerate() {
        let r = db.exec(&format!("INSERT INTO {tname} VALUES ({}, {})", i + 1, vlit(&dom[di].1)));
        if !r.ok() {
            setup_fail(rep, &format!("insert-{}", dom[di].0), &r.show());
            return 0;
        }
    }
    let mut nq = 0u64;
    for op in ["<->", "<=>"] {
        for q in 0..dom.len() {
            if let Some((oop, oq)) = only {
                if oop != op || oq != q {
                    continue;
                }
            }
            let qv = &dom[q].1;
            // exact distances of all table rows
            let all: Vec<Option<f64>> = c.rows.iter().map(|&di| dist(op, &dom[di].1, qv)).collect();
            let undefined_total = all.iter().filter(|x| x.is_none()).count();
            let mut defined_sorted: Vec<f64> = all.iter().flatten().copied().collect();
            defined_sorted.sort_by(|a, b| a.partial_cmp(b).unwrap());
            let mut ks: Vec<Option<usize>> = vec![None];
            ks.extend((1..=n).map(Some));
            ks.push(Some(n + 1));
            ks.push(Some(0));
            for k in ks {
                nq += 1;
                let sql = match k {
                    None => format!("SELECT id, v FROM {tname} ORDER BY v {op} {}", vlit(qv)),
                    Some(k) => format!("SELECT id, v FROM {tname} ORDER BY v {op} {} LIMIT {k}", vlit(qv)),
                };
                let kcls = match k {
                    None => "nolimit".to_string(),
                    Some(0) => "limit0".to_string(),
                    Some(k) if k > n => "limit>n".to_string(),
                    Some(_) => "limit-k".to_string(),
                };
                rep.case(vcore::util::hash_of(&("s", c.domain, c.dim, &c.rows, c.hnsw, op, q, k)), n >= 2);
                let res = vcore::catch(|| db.db().query(&sql).map_err(|e| format!("{e:#}")));
                let rows = match res {
                    Err(p) => {
                        let what = if k == Some(0) { "limit0".to_string() } else { format!("q={}:{}", dom[q].0, kcls) };
                        rep.violation("C24", "sql", &format!("C24/{}/{}/{}/panic", opname(op), dim_class(c.dim), what), || case(op, q), if k == Some(0) { "0 rows" } else { "rows" }, &format!("{sql} => PANIC {p}"));
                        continue;
                    }
                    Ok(Err(e)) => {
                        rep.violation("C24", "sql", &format!("C24/{}/{}/q={}:{}/error", opname(op), dim_class(c.dim), dom[q].0, kcls), || case(op, q), "rows", &format!("{sql} => Err {e}"));
                        continue;
                    }
                    Ok(Ok(r)) => r,
                };
                rep.count(&format!("sql_queries:{}", kcls), 1);
                // decode (id, v) and validate against what was inserted
                let mut got: Vec<(usize, &'static str, Option<f64>)> = Vec::new(); // (row position, class, exact distance)
                let mut bad_row: Option<String> = None;
                let mut seen = vec![false; n];
                for r in &rows {
                    let id = match r.values.first() {
                        Some(OwnedValue::Int(i)) => *i,
                        o => {
                            bad_row = Some(format!("id column = {o:?}"));
                            break;
                        }
                    };
                    if id < 1 || id as usize > n || seen[id as usize - 1] {
                        bad_row = Some(format!("id {id} not a distinct table row"));
                        break;
                    }
                    seen[id as usize - 1] = true;
                    let di = c.rows[id as usize - 1];
                    match r.values.get(1) {
                        Some(OwnedValue::Vector(v)) if v.len() == c.dim && v.iter().zip(&dom[di].1).all(|(a, b)| a == b) => {
                            got.push((id as usize - 1, dom[di].0, dist(op, v, qv)));
                        }
                        o => {
                            bad_row = Some(format!("row id {id}: v = {} (inserted {:?})", vcore::util::clip(&format!("{o:?}"), 200), dom[di].0));
                            break;
                        }
                    }
                }
                if let Some(b) = bad_row {
                    rep.violation("C24", "sql", &format!("C24/{}/{}/q={}:{}/wrong-topk", opname(op), dim_class(c.dim), dom[q].0, "returned-row-not-a-table-row"), || case(op, q), "rows (id, v) of the table", &format!("{sql} => {b}"));
                    continue;
                }
                let shown = || {
                    format!(
                        "{sql} => [{}]  (table distances in id order: {:?})",
                        got.iter().map(|(p, c, d)| format!("id{}:{}:{}", p + 1, c, d.map(|x| format!("{x:e}")).unwrap_or("undef".into()))).collect::<Vec<_>>().join(", "),
                        all
                    )
                };
                // 1. row count
                let want_n = match k {
                    None => n,
                    Some(k) => k.min(n),
                };
                if got.len() != want_n {
                    rep.violation(
                        "C24",
                        "sql",
                        &format!("C24/{}/{}/q={}:{}/wrong-topk", opname(op), dim_class(c.dim), dom[q].0, format!("{kcls}-row-count")),
                        || case(op, q),
                        &format!("{want_n} rows"),
                        &format!("{} rows: {}", got.len(), shown()),
                    );
                    continue;
                }
                // 2. order: defined distances non-decreasing; undefined ones all first or all last
                let mut viol = false;
                let defined: Vec<&(usize, &'static str, Option<f64>)> = got.iter().filter(|g| g.2.is_some()).collect();
                for w in defined.windows(2) {
                    if !le_tol(w[0].2.unwrap(), w[1].2.unwrap(), c.dim) {
                        let pre = if undefined_total > 0 { "undef+" } else { "" };
                        rep.violation("C24", "sql", &format!("C24/{}/{}/{pre}{}~{}/not-sorted", opname(op), dim_class(c.dim), w[0].1, w[1].1), || case(op, q), "non-decreasing exact distances", &shown());
                        viol = true;
                        break;
                    }
                }
                if viol {
                    continue;
                }
                let u = got.iter().filter(|g| g.2.is_none()).count();
                if u > 0 && u < got.len() {
                    let first_def = got.iter().position(|g| g.2.is_some()).unwrap();
                    let last_def = got.iter().rposition(|g| g.2.is_some()).unwrap();
                    let undef_first = got[..first_def].len();
                    let undef_last = got.len() - 1 - last_def;
                    if undef_first + undef_last != u || (undef_first > 0 && undef_last > 0) {
                        let pos = got.iter().enumerate().position(|(i, g)| g.2.is_none() && i > first_def && i < last_def);
                        let neighbour = pos.map(|p| got[p - 1].1).unwrap_or("split");
                        rep.violation(
                            "C24",
                            "sql",
                            &format!("C24/{}/{}/zero-undefined~{}/not-sorted", opname(op), dim_class(c.dim), neighbour),
                            || case(op, q),
                            "rows with an undefined (zero-vector) cosine distance all first or all last",
                            &shown(),
                        );
                        continue;
                    }
                    rep.count(if undef_first > 0 { "undefined_distance_rows_first" } else { "undefined_distance_rows_last" }, 1);
                }
                // 3. top-k: defined returned distances are the smallest defined ones; number of
                //    undefined rows fits NULLS FIRST or NULLS LAST
                let kk = got.len();
                let dn = defined.len();
                let mut bad: Option<(String, String)> = None;
                for (i, g) in defined.iter().enumerate() {
                    if !eq_tol(g.2.unwrap(), defined_sorted[i], c.dim) {
                        // the i-th smallest distance is missing: find a table row having it
                        let missing = c.rows.iter().zip(&all).find(|(_, d)| d.map(|x| eq_tol(x, defined_sorted[i], c.dim)).unwrap_or(false)).map(|(di, _)| dom[*di].0).unwrap_or("?");
                        bad = Some((format!("{}~{}", g.1, missing), format!("{}-th smallest distance {:e}", i + 1, defined_sorted[i])));
                        break;
                    }
                }
                if bad.is_none() {
                    let nulls_first = undefined_total.min(kk);
                    let nulls_last = kk.saturating_sub(n - undefined_total);
                    if u != nulls_first && u != nulls_last {
                        bad = Some(("zero-undefined~count".into(), format!("{nulls_first} (first) or {nulls_last} (last) rows with undefined distance, {dn} defined")));
                    }
                }
                if let Some((pair, want)) = bad {
                    // blame: tables holding a row with an undefined distance are a class of their own
                    let pair = if undefined_total > 0 && !pair.starts_with("zero-undefined") { format!("undef+{pair}") } else { pair };
                    rep.violation("C24", "sql", &format!("C24/{}/{}/{}/wrong-topk", opname(op), dim_class(c.dim), pair), || case(op, q), &want, &shown());
                    continue;
                }
                // 4. `<->` is evaluated from f32 components whose exact L2 distance is an ordinary f64: where two exact
                //    distances differ by more than f64 rounding (1e-12 relative) the order / the top-k choice is
                //    demanded exactly, also when the difference is below f32 resolution
                if op == "<->" {
                    let lt_exact = |a: f64, b: f64| a < b - 1e-12 * a.abs().max(b.abs());
                    let mut exact_bad: Option<(String, &'static str, String)> = None;
                    for w in defined.windows(2) {
                        if lt_exact(w[1].2.unwrap(), w[0].2.unwrap()) {
                            exact_bad = Some((format!("{}~{}", w[0].1, w[1].1), "not-sorted-exact", "non-decreasing exact (f64) distances, also where they differ by less than f32 resolution".into()));
                            break;
                        }
                    }
                    if exact_bad.is_none() {
                        for (i, g) in defined.iter().enumerate() {
                            if lt_exact(defined_sorted[i], g.2.unwrap()) {
                                let missing = c.rows.iter().zip(&all).find(|(_, d)| d.map(|x| !lt_exact(x, defined_sorted[i]) && !lt_exact(defined_sorted[i], x)).unwrap_or(false)).map(|(di, _)| dom[*di].0).unwrap_or("?");
                                exact_bad = Some((format!("{}~{}", g.1, missing), "wrong-topk-exact", format!("{}-th smallest exact distance {:e}", i + 1, defined_sorted[i])));
                                break;
                            }
                        }
                    }
                    if let Some((pair, cls, want)) = exact_bad {
                        rep.violation("C24", "sql", &format!("C24/{}/{}/{}/{}", opname(op), dim_class(c.dim), pair, cls), || case(op, q), &want, &shown());
                        continue;
                    }
                    if defined.windows(2).any(|w| lt_exact(w[0].2.unwrap(), w[1].2.unwrap()) && eq_tol(w[0].2.unwrap(), w[1].2.unwrap(), c.dim)) {
                        rep.count("results_ordered_below_f32_resolution", 1);
                    }
                    if defined.iter().any(|g| g.2.unwrap() > 1.9e19) {
                        rep.count("results_with_distance_whose_square_exceeds_f32", 1);
                    }
                }
                // vacuity counters
                if defined.windows(2).any(|w| eq_tol(w[0].2.unwrap(), w[1].2.unwrap(), c.dim)) {
                    rep.count("results_with_tied_distances", 1);
                }
                if let Some(k) = k {
                    if k >= 1 && k < n {
                        rep.count("proper_topk_results_checked", 1);
                        if dn == kk && defined_sorted.len() > kk && eq_tol(defined_sorted[kk - 1], defined_sorted[kk], c.dim) {
                            rep.count("topk_boundary_is_a_tie", 1);
                        }
                    }
                }
                rep.outcome(&format!("sql:{}:{}:{}rows:{}undef", op, kcls, kk.min(3), u.min(2)));
            }
            if ctx.expired() {
                break;
            }
        }
    }
    let _ = db.exec(&format!("DROP TABLE {tname}"));
    nq
}

fn plan_note(db: &TestDb, rep: &mut Reporter) {
    let _ = db.exec("CREATE TABLE pl (id BIGINT PRIMARY KEY, v VECTOR(3))");
    for (name, sql) in [("nolimit", "SELECT id, v FROM pl ORDER BY v <-> '[1,0,0]'"), ("limit", "SELECT id, v FROM pl ORDER BY v <-> '[1,0,0]' LIMIT 2")] {
        if let Some(p) = checks::sqlh::explain(db.db(), sql) {
            for opn in ["TopK", "Sort", "TableScan", "SeqScan", "Hnsw", "HNSW", "IndexScan", "Limit", "Project"] {
                if p.contains(opn) {
                    rep.count(&format!("plan_{name}_has_{opn}"), 1);
                }
            }
        }
    }
    let _ = db.exec("DROP TABLE pl");
    // does the planner use an HNSW index for these queries? (recorded, not judged)
    let _ = db.exec("CREATE TABLE plh (id BIGINT PRIMARY KEY, v VECTOR(3))");
    let _ = db.exec("CREATE INDEX ix_plh ON plh USING HNSW (v)");
    let _ = db.exec("INSERT INTO plh VALUES (1, '[1,0,0]')");
    if let Some(p) = checks::sqlh::explain(db.db(), "SELECT id, v FROM plh ORDER BY v <-> '[1,0,0]' LIMIT 1") {
        let uses = p.to_lowercase().contains("hnsw");
        rep.count(if uses { "plan_with_hnsw_index_uses_hnsw" } else { "plan_with_hnsw_index_is_topk_over_scan" }, 1);
    }
    let _ = db.exec("DROP TABLE plh");
}

impl Check for C24 {
    fn specs(&self) -> Vec<Spec> {
        let mut s = Spec::new(
            "C24",
            "exploration",
            "(a) kernel case = (dimension d, ordered pair (a,b) of the per-dimension vector set {zero, unit axis first/last/middle, all-equal 0.75, alternating +-1, all 1e18, one 1e18 among ones, all 1e-18, repeating (1e18,1e-18,1), ramp, reversed ramp, negative half ramp, (3,..,4), (4,..,3)}); d = 1..=70 (thorough adds 127,128,129,1536); every case calls all 17 kernels of src/hnsw/distance.rs (5 dispatching entry points via select_distance_fn / select_squared_distance_fn / euclidean_squared, 5 scalar bodies, 5 AVX2+FMA bodies) and compares with an f64 evaluation of the definition; plus NaN/inf/f32::MAX inputs (no panic). Non-trivial = not (zero,zero). (b) SQL case = (dimension in {1,3,8,9,70}, multiset of n<=5 (quick) / n<=6 (thorough) vectors of the 5-vector domain {e0, -e0, zero, (1e18,0..,1e-18), dense +-0.5} inserted in canonical and in reversed order (thorough: also rotated by one, and with an HNSW index for n<=4), operator <-> or <=>, query vector of the domain, LIMIT none / 0 / 1..n / n+1); distances are recomputed in f64 from the returned vectors. The same sweep runs over a large-magnitude 8-vector domain {3e19*e0, 6e19*e0, origin, -5e19*e_last, all 2e19, 1e20*e_mid, e0, e0+2e-4*e_last} (every component an ordinary f32, every exact distance an ordinary f64, squared differences beyond the f32 range; the last two differ in their distance from the origin by 2e-8 relative) for dimensions 8, 9, 16 (thorough: also 3 and 70) and n<=3 (thorough n<=4) rows. Non-trivial = table has >= 2 rows.",
        );
        s.assumptions = &[
            "kernel oracle: f64 evaluation of sum (a_i-b_i)^2, its sqrt, sum a_i*b_i, 1 - dot/(|a||b|); accepted error 4*dim*eps_f32 relative to the sum of absolute terms (cosine: 4*(dim+2)*eps_f32 absolute) plus dim * smallest subnormal; nothing is demanded when the exact sum of squares / products / a squared norm exceeds the f32 range, nor for cosine with a zero vector (only: no panic)",
            "SQL oracle, exact layer (operator <-> only): where two exact f64 distances differ by more than 1e-12 relative, the rows must be ordered / chosen for the top-k accordingly, also when the difference is below f32 resolution (the components are f32, their exact L2 distance is an ordinary f64)",
            "SQL oracle: a returned row must be a table row (id, v as inserted); defined distances non-decreasing within 4*dim*eps_f32 relative; rows whose cosine distance is undefined (zero vector) may be placed all first or all last; the returned defined distances must be the smallest ones of the table (ties by value) and the number of undefined rows must fit NULLS FIRST or NULLS LAST",
            "the sandbox CPU has AVX2+FMA (counter avx2_fma_available), so the dispatching entry points run the SIMD bodies; the scalar bodies are called directly",
        ];
        s.cap_quick_s = 100;
        s.cap_thorough_s = 1500;
        vec![s]
    }

    fn run(&self, ctx: &Ctx, rep: &mut Reporter) {
        std::env::set_var("RUST_BACKTRACE", "0");
        let ks = kernels();
        rep.count("avx2_fma_available", ks.iter().any(|k| k.simd) as u64);
        rep.count("kernels_under_test", if ctx.worker == 0 { ks.len() as u64 } else { 0 });
        rep.expect_nonzero("simd_body_plus_tail_calls");
        rep.expect_nonzero("simd_tail_only_calls_dim<8");
        rep.expect_nonzero("results_with_tied_distances");
        rep.expect_nonzero("proper_topk_results_checked");
        rep.expect_nonzero("topk_boundary_is_a_tie");
        rep.expect_nonzero("kernel_values_within_bound");
        rep.expect_nonzero("sql_tables_large_magnitude_domain");
        rep.expect_nonzero("results_ordered_below_f32_resolution");
        rep.expect_nonzero("results_with_distance_whose_square_exceeds_f32");
        rep.bound("kernel_error_bound", json!("4*dim*2^-23 * sum|terms| (+ dim*1.4e-45); cosine 4*(dim+2)*2^-23 absolute"));
        let mut dims: Vec<usize> = (1..=70).collect();
        if !ctx.quick() {
            dims.extend([127, 128, 129, 1536]);
        }
        rep.bound("kernel_dims", json!(if ctx.quick() { "1..=70" } else { "1..=70,127,128,129,1536" }));
        let nmax = ctx.tier.pick(5usize, 6usize);
        rep.bound("sql_max_rows", json!(nmax));
        rep.bound("sql_dims", json!(SQL_DIMS));
        let mut idx = 0u64;
        for d in dims {
            idx += 1;
            if ctx.mine(idx) {
                kernel_dim(d, &ks, rep);
            }
        }
        rep.sample(|| json!({"kind": "kernel", "dim": 9, "a": "ramp", "b": "alt-sign", "meaning": "all 17 kernels on ([1..9],[1,-1,..])"}));
        rep.sample(|| json!({"kind": "sql", "dim": 3, "rows": [0, 0, 2, 3], "hnsw": false, "op": "<=>", "q": 0, "meaning": "table {e0, e0, zero, large}, ORDER BY v <=> e0, every LIMIT"}));
        // SQL part: one unit of work = one table
        let mut db: Option<TestDb> = None;
        let mut used = 0usize;
        let mut tno = 0usize;
        let mut variants: Vec<(usize, u8, bool)> = Vec::new(); // (n, insertion order: 0 canonical / 1 reversed / 2 rotated by one, hnsw)
        for n in 1..=nmax {
            variants.push((n, 0, false));
        }
        for n in 2..=nmax {
            variants.push((n, 1, false));
        }
        if !ctx.quick() {
            for n in 3..=nmax {
                variants.push((n, 2, false));
            }
            for n in 1..=4 {
                variants.push((n, 0, true));
            }
        }
        // sweeps: the large-magnitude domain first (small), then the moderate domain
        let hmax = ctx.tier.pick(3usize, 4usize);
        rep.bound("sql_huge_domain", json!({"dims": if ctx.quick() { HUGE_DIMS_QUICK.to_vec() } else { HUGE_DIMS_THOROUGH.to_vec() }, "max_rows": hmax, "vectors": huge_domain(8).iter().map(|(n, _)| *n).collect::<Vec<_>>()}));
        let huge_variants: Vec<(usize, u8, bool)> = variants.iter().copied().filter(|(n, rev, hnsw)| *n <= hmax && *rev <= 1 && (!*hnsw || *n <= 2)).collect();
        let huge_dims: Vec<usize> = if ctx.quick() { HUGE_DIMS_QUICK.to_vec() } else { HUGE_DIMS_THOROUGH.to_vec() };
        let mut sweep: Vec<(u8, usize, (usize, u8, bool))> = Vec::new();
        for &d in &huge_dims {
            for &v in &huge_variants {
                sweep.push((1, d, v));
            }
        }
        for &d in &SQL_DIMS {
            for &v in &variants {
                sweep.push((0, d, v));
            }
        }
        'outer: for &(domain, d, (n, rev, hnsw)) in &sweep {
            {
                for ms in multisets(sql_domain(domain, d).len(), n) {
                    idx += 1;
                    if !ctx.mine(idx) {
                        continue;
                    }
                    if ctx.expired() {
                        rep.capped("deadline in SQL table sweep");
                        break 'outer;
                    }
                    let mut rows = ms.clone();
                    match rev {
                        1 => rows.reverse(),
                        2 => rows.rotate_left(1),
                        _ => {}
                    }
                    if rev != 0 && rows == ms {
                        continue; // same insertion order as the canonical pass
                    }
                    if rev == 2 && rows.iter().rev().eq(ms.iter()) {
                        continue; // same as the reversed pass
                    }
                    if db.is_none() || used >= 40 {
                        db = None;
                        match TestDb::create(&ctx.scratch, "c24db") {
                            Ok(t) => {
                                if tno == 0 {
                                    plan_note(&t, rep);
                                }
                                db = Some(t);
                                used = 0;
                            }
                            Err(e) => vcore::machinery(&format!("C24: cannot create database: {e}")),
                        }
                    }
                    tno += 1;
                    used += 1;
                    let c = SqlCase { domain, dim: d, rows, hnsw };
                    let nq = sql_table(ctx, db.as_ref().unwrap(), &format!("t{tno}"), &c, None, rep);
                    rep.count("sql_tables", 1);
                    if domain == 1 {
                        rep.count("sql_tables_large_magnitude_domain", 1);
                    }
                    rep.count(if hnsw { "sql_queries_with_hnsw_index" } else { "sql_queries_plain" }, nq);
                }
            }
        }
    }

    fn replay(&self, ctx: &Ctx, case: &Value, rep: &mut Reporter) {
        std::env::set_var("RUST_BACKTRACE", "0");
        match case["kind"].as_str() {
            Some("kernel") => {
                let d = case["dim"].as_u64().unwrap_or(1) as usize;
                let ks = kernels();
                let vs = kernel_vectors(d);
                let find = |n: &str| vs.iter().position(|(c, _)| *c == n);
                match (find(case["a"].as_str().unwrap_or("")), find(case["b"].as_str().unwrap_or(""))) {
                    (Some(i), Some(j)) => {
                        kernel_pair(d, &vs, i, j, &ks, rep);
                        rep.case(0, true);
                    }
                    _ => vcore::machinery("C24: unknown vector class in kernel case"),
                }
            }
            Some("kernel-nonfinite") => {
                let d = case["dim"].as_u64().unwrap_or(1) as usize;
                kernel_nonfinite(d, &kernels(), rep);
                rep.case(0, true);
            }
            Some("sql") => {
                let c = SqlCase {
                    domain: case["domain"].as_u64().unwrap_or(0) as u8,
                    dim: case["dim"].as_u64().unwrap_or(1) as usize,
                    rows: case["rows"].as_array().map(|a| a.iter().map(|x| x.as_u64().unwrap_or(0) as usize).collect()).unwrap_or_default(),
                    hnsw: case["hnsw"].as_bool().unwrap_or(false),
                };
                let op = case["op"].as_str().unwrap_or("-").to_string();
                let q = case["q"].as_u64().unwrap_or(0) as usize;
                let db = TestDb::create(&ctx.scratch, "c24replay").unwrap_or_else(|e| vcore::machinery(&format!("C24: cannot create database: {e}")));
                let only = if op == "-" { None } else { Some((op.as_str(), q)) };
                sql_table(ctx, &db, "t1", &c, only, rep);
            }
            _ => vcore::machinery("C24: unknown case kind"),
        }
    }
}

fn main() {
    vcore::main(&C24)
}
