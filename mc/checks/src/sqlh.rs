//! Helpers for SQL-history checks: fresh databases on /dev/shm, panic-safe
//! statement execution with normalized results, observations.
use refmodel::val::{Row, V};
use std::path::{Path, PathBuf};
use turdb::{Database, ExecuteResult, OwnedValue};

pub fn to_v(v: &OwnedValue) -> V {
    match v {
        OwnedValue::Null => V::Null,
        OwnedValue::Bool(b) => V::Bool(*b),
        OwnedValue::Int(i) => V::Int(*i),
        OwnedValue::Float(f) => V::Float(*f),
        OwnedValue::Text(s) => V::Text(s.clone()),
        OwnedValue::Blob(b) => V::Blob(b.clone()),
        other => V::Other(format!("{other:?}")),
    }
}
pub fn row_to_v(r: &turdb::Row) -> Row {
    (0..r.column_count()).map(|i| r.get(i).map(to_v).unwrap_or(V::Null)).collect()
}

/// Normalized outcome of one statement.
#[derive(Clone, Debug, PartialEq)]
pub enum Res {
    /// SELECT / EXPLAIN-like: rows in returned order
    Rows(Vec<Row>),
    /// INSERT/UPDATE/DELETE/TRUNCATE: affected count (+ RETURNING rows)
    Affected(usize, Option<Vec<Row>>),
    /// DDL / transaction control / pragma: a short tag, e.g. "CreateTable(true)"
    Done(String),
    /// statement returned Err (message kept for diagnostics; compare with `is_err`)
    Err(String),
    /// statement panicked (message @ location)
    Panic(String),
}
impl Res {
    pub fn is_err(&self) -> bool {
        matches!(self, Res::Err(_))
    }
    pub fn is_panic(&self) -> bool {
        matches!(self, Res::Panic(_))
    }
    pub fn ok(&self) -> bool {
        !matches!(self, Res::Err(_) | Res::Panic(_))
    }
    /// class string for outcome counting / signatures: "rows" "affected" "done" "err" "panic"
    pub fn class(&self) -> &'static str {
        match self {
            Res::Rows(_) => "rows",
            Res::Affected(..) => "affected",
            Res::Done(_) => "done",
            Res::Err(_) => "err",
            Res::Panic(_) => "panic",
        }
    }
    /// rows as a sorted bag (None if not a row result)
    pub fn bag(&self) -> Option<Vec<Row>> {
        match self {
            Res::Rows(r) => Some(refmodel::val::bag(r)),
            _ => None,
        }
    }
    pub fn show(&self) -> String {
        match self {
            Res::Rows(r) => format!("Rows{}", refmodel::val::show_rows(r)),
            Res::Affected(n, None) => format!("Affected({n})"),
            Res::Affected(n, Some(r)) => format!("Affected({n}) RETURNING {}", refmodel::val::show_rows(r)),
            Res::Done(s) => format!("Done({s})"),
            Res::Err(e) => format!("Err({})", vcore::util::clip(e, 300)),
            Res::Panic(e) => format!("PANIC({})", vcore::util::clip(e, 300)),
        }
    }
}

pub fn norm(r: Result<ExecuteResult, String>) -> Res {
    match r {
        Err(e) => Res::Err(e),
        Ok(x) => match x {
            ExecuteResult::Select { rows, .. } => Res::Rows(rows.iter().map(row_to_v).collect()),
            ExecuteResult::Insert { rows_affected, returned } | ExecuteResult::Update { rows_affected, returned } | ExecuteResult::Delete { rows_affected, returned } => {
                Res::Affected(rows_affected, returned.map(|v| v.iter().map(row_to_v).collect()))
            }
            ExecuteResult::Truncate { rows_affected } => Res::Affected(rows_affected, None),
            ExecuteResult::Explain { plan } => Res::Rows(vec![vec![V::Text(plan)]]),
            ExecuteResult::Pragma { name, value } => Res::Done(format!("Pragma({name},{value:?})")),
            other => Res::Done(format!("{other:?}")),
        },
    }
}

/// Execute one statement; panics become `Res::Panic`.
pub fn exec(db: &Database, sql: &str) -> Res {
    match vcore::catch(|| db.execute(sql).map_err(|e| format!("{e:#}"))) {
        Ok(r) => norm(r),
        Err(p) => Res::Panic(p),
    }
}
pub fn exec_params(db: &Database, sql: &str, params: &[OwnedValue]) -> Res {
    match vcore::catch(|| db.execute_with_params(sql, params).map_err(|e| format!("{e:#}"))) {
        Ok(r) => norm(r),
        Err(p) => Res::Panic(p),
    }
}
/// Run a query through `Database::query`; rows in returned order.
pub fn query(db: &Database, sql: &str) -> Res {
    match vcore::catch(|| db.query(sql).map_err(|e| format!("{e:#}"))) {
        Ok(Ok(rows)) => Res::Rows(rows.iter().map(row_to_v).collect()),
        Ok(Err(e)) => Res::Err(e),
        Err(p) => Res::Panic(p),
    }
}
/// The physical plan text reported by EXPLAIN (None on error).
pub fn explain(db: &Database, sql: &str) -> Option<String> {
    match exec(db, &format!("EXPLAIN {sql}")) {
        Res::Rows(r) => r.first().and_then(|r| r.first()).map(|v| match v {
            V::Text(s) => s.clone(),
            o => o.show(),
        }),
        _ => None,
    }
}

/// A database in its own fresh directory.  Dropping closes the handle(s)
/// first and then removes the directory.
pub struct TestDb {
    pub db: Option<Database>,
    pub dir: PathBuf,
    keep: bool,
}
impl TestDb {
    /// `base` is usually `ctx.scratch`; `name` must be unique within the worker.
    pub fn create(base: &Path, name: &str) -> Result<TestDb, String> {
        let dir = base.join(name);
        let _ = std::fs::remove_dir_all(&dir);
        if let Some(p) = dir.parent() {
            std::fs::create_dir_all(p).map_err(|e| e.to_string())?;
        }
        match vcore::catch(|| Database::create(&dir).map_err(|e| format!("{e:#}"))) {
            Ok(Ok(db)) => Ok(TestDb { db: Some(db), dir, keep: false }),
            Ok(Err(e)) => Err(e),
            Err(p) => Err(format!("PANIC {p}")),
        }
    }
    pub fn db(&self) -> &Database {
        self.db.as_ref().expect("database is open")
    }
    pub fn exec(&self, sql: &str) -> Res {
        exec(self.db(), sql)
    }
    pub fn query(&self, sql: &str) -> Res {
        query(self.db(), sql)
    }
    /// Drop the handle (clean close via Drop) and open the directory again.
    pub fn reopen(&mut self) -> Result<(), String> {
        self.db = None;
        match vcore::catch(|| Database::open(&self.dir).map_err(|e| format!("{e:#}"))) {
            Ok(Ok(db)) => {
                self.db = Some(db);
                Ok(())
            }
            Ok(Err(e)) => Err(e),
            Err(p) => Err(format!("PANIC {p}")),
        }
    }
    /// Explicit `close()` then open again.
    pub fn close_reopen(&mut self) -> Result<(), String> {
        if let Some(db) = &self.db {
            match vcore::catch(|| db.close().map(|_| ()).map_err(|e| format!("{e:#}"))) {
                Ok(Ok(())) => {}
                Ok(Err(e)) => return Err(format!("close: {e}")),
                Err(p) => return Err(format!("PANIC in close: {p}")),
            }
        }
        self.reopen()
    }
    pub fn keep(&mut self) {
        self.keep = true;
    }
}
impl Drop for TestDb {
    fn drop(&mut self) {
        let db = self.db.take();
        let _ = vcore::catch(move || drop(db));
        if !self.keep {
            let _ = std::fs::remove_dir_all(&self.dir);
        }
    }
}

/// One observation query and its normalized result (row results as sorted bags
/// unless `ordered`).
#[derive(Clone, Debug, PartialEq)]
pub struct ObsItem {
    pub sql: String,
    pub res: Res,
}
/// Run every query and normalise row order (bags), so two observations can be
/// compared with `==`.  Errors and panics are part of the observation.
pub fn observe(db: &Database, queries: &[String]) -> Vec<ObsItem> {
    queries
        .iter()
        .map(|q| {
            let r = exec(db, q);
            let r = match r {
                Res::Rows(rows) => Res::Rows(refmodel::val::bag(&rows)),
                o => o,
            };
            ObsItem { sql: q.clone(), res: r }
        })
        .collect()
}
/// First differing item of two observations, rendered.
pub fn obs_diff(a: &[ObsItem], b: &[ObsItem]) -> Option<(String, String, String)> {
    for (x, y) in a.iter().zip(b.iter()) {
        if x.res != y.res {
            return Some((x.sql.clone(), x.res.show(), y.res.show()));
        }
    }
    if a.len() != b.len() {
        return Some(("<length>".into(), a.len().to_string(), b.len().to_string()));
    }
    None
}

/// Render a V as a SQL literal (harness-side renderer; never TurDB's).
pub fn lit(v: &V) -> String {
    match v {
        V::Null => "NULL".into(),
        V::Bool(b) => if *b { "TRUE".into() } else { "FALSE".into() },
        V::Int(i) => format!("{i}"),
        V::Float(f) => {
            if f.fract() == 0.0 && f.abs() < 1e15 {
                format!("{f:.1}")
            } else {
                format!("{f:?}")
            }
        }
        V::Text(s) => format!("'{}'", s.replace('\'', "''")),
        V::Blob(b) => format!("x'{}'", vcore::util::hex(b)),
        V::Other(s) => s.clone(),
    }
}
