//! Shared helpers for the per-property check binaries.
pub mod guard;
pub mod sqlh;
