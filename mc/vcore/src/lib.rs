//! vcore — shared machinery of the TurDB model-checking harness.
//!
//! One binary per property (or property group).  The binary is started by
//! `/verif/check` as the *parent*; the parent re-executes itself as N worker
//! processes, each exploring a deterministic slice of the enumeration, merges
//! the worker reports, matches violations against `/verif/known_findings.json`,
//! re-executes one example per new signature (determinism gate), writes
//! `/verif/evidence/<ID>.json` and replay files, prints `KNOWN-FINDING:` /
//! `VIOLATION` lines and exits 0 / 1 (2 = machinery failure, never a verdict).

pub mod findings;
pub mod report;
pub mod util;

pub use report::{Reporter, Violation, WorkerReport};
pub use serde_json::{json, Value};

use std::collections::BTreeMap;
use std::io::Write;
use std::path::{Path, PathBuf};
use std::process::{Command, Stdio};
use std::time::{Duration, Instant};

#[derive(Clone, Copy, Debug, PartialEq, Eq)]
pub enum Tier {
    Quick,
    Thorough,
}

impl Tier {
    pub fn name(self) -> &'static str {
        match self {
            Tier::Quick => "quick",
            Tier::Thorough => "thorough",
        }
    }
    pub fn pick<T>(self, q: T, t: T) -> T {
        match self {
            Tier::Quick => q,
            Tier::Thorough => t,
        }
    }
}

/// Invocation context handed to the check.
#[derive(Clone, Debug)]
pub struct Ctx {
    pub property: String,
    pub tier: Tier,
    pub seed: u64,
    /// (index, count) of this worker.
    pub worker: usize,
    pub workers: usize,
    /// per-process scratch directory on /dev/shm (removed by the parent).
    pub scratch: PathBuf,
    /// deadline after which enumeration loops should stop (cap ⇒ exhaustive:false)
    pub deadline: Instant,
    /// free-form extra arguments (`--opt k=v`)
    pub opts: BTreeMap<String, String>,
}

impl Ctx {
    /// true when this worker owns case number `i` of a sliced enumeration.
    /// The seed rotates the partition only; the explored set is the same.
    #[inline]
    pub fn mine(&self, i: u64) -> bool {
        ((i.wrapping_add(self.seed)) % self.workers as u64) as usize == self.worker
    }
    pub fn expired(&self) -> bool {
        Instant::now() >= self.deadline
    }
    pub fn opt(&self, k: &str) -> Option<&str> {
        self.opts.get(k).map(|s| s.as_str())
    }
    pub fn quick(&self) -> bool {
        self.tier == Tier::Quick
    }
}

/// Static description of a check (one per property id served by the binary).
#[derive(Clone, Debug)]
pub struct Spec {
    pub property: &'static str,
    /// evidence level: exploration | fault_enumeration | model_checking
    pub level: &'static str,
    /// how cases are enumerated and what makes one distinct / non-trivial
    pub rule: &'static str,
    pub assumptions: &'static [&'static str],
    /// wall caps (seconds) per tier for the exploration itself
    pub cap_quick_s: u64,
    pub cap_thorough_s: u64,
    /// a worker dying (abort/segfault/timeout) is a verdict about the case it
    /// was running (C22/C23 style) instead of a machinery failure
    pub crash_is_verdict: bool,
    /// max workers (some checks are single process)
    pub max_workers: usize,
}

impl Spec {
    pub const fn new(property: &'static str, level: &'static str, rule: &'static str) -> Spec {
        Spec {
            property,
            level,
            rule,
            assumptions: &[],
            cap_quick_s: 120,
            cap_thorough_s: 3600,
            crash_is_verdict: false,
            max_workers: 16,
        }
    }
}

pub trait Check: Sync {
    /// all property ids this binary serves
    fn specs(&self) -> Vec<Spec>;
    /// explore this worker's slice
    fn run(&self, ctx: &Ctx, rep: &mut Reporter);
    /// re-execute exactly one recorded case (the `case` value of a violation)
    fn replay(&self, ctx: &Ctx, case: &Value, rep: &mut Reporter);
}

fn verif_root() -> PathBuf {
    if let Ok(p) = std::env::var("VERIF_ROOT") {
        return PathBuf::from(p);
    }
    PathBuf::from("/verif")
}

struct Args {
    property: Option<String>,
    tier: Tier,
    worker: Option<(usize, usize)>,
    report: Option<PathBuf>,
    replay: Option<PathBuf>,
    replay_worker: Option<PathBuf>,
    jobs: usize,
    opts: BTreeMap<String, String>,
    deadline_s: Option<u64>,
    scratch: Option<PathBuf>,
}

fn parse_args() -> Args {
    let mut a = Args {
        property: None,
        tier: match std::env::var("VERIF_TIER").ok().as_deref() {
            Some("thorough") => Tier::Thorough,
            _ => Tier::Quick,
        },
        worker: None,
        report: None,
        replay: None,
        replay_worker: None,
        jobs: std::env::var("VERIF_JOBS")
            .ok()
            .and_then(|s| s.parse().ok())
            .unwrap_or(16),
        opts: BTreeMap::new(),
        deadline_s: None,
        scratch: None,
    };
    let mut it = std::env::args().skip(1);
    while let Some(x) = it.next() {
        match x.as_str() {
            "--property" => a.property = it.next(),
            "--tier" => {
                a.tier = match it.next().as_deref() {
                    Some("thorough") => Tier::Thorough,
                    Some("quick") => Tier::Quick,
                    other => machinery(&format!("bad --tier {:?}", other)),
                }
            }
            "--worker" => {
                let v = it.next().unwrap_or_default();
                let (i, n) = v.split_once('/').unwrap_or_else(|| machinery("bad --worker"));
                a.worker = Some((i.parse().unwrap(), n.parse().unwrap()));
            }
            "--report" => a.report = it.next().map(PathBuf::from),
            "--replay" => a.replay = it.next().map(PathBuf::from),
            "--replay-worker" => a.replay_worker = it.next().map(PathBuf::from),
            "--jobs" => a.jobs = it.next().and_then(|s| s.parse().ok()).unwrap_or(16),
            "--deadline-s" => a.deadline_s = it.next().and_then(|s| s.parse().ok()),
            "--scratch" => a.scratch = it.next().map(PathBuf::from),
            "--opt" => {
                let v = it.next().unwrap_or_default();
                if let Some((k, val)) = v.split_once('=') {
                    a.opts.insert(k.to_string(), val.to_string());
                } else {
                    a.opts.insert(v, "1".to_string());
                }
            }
            other => machinery(&format!("unknown argument {other}")),
        }
    }
    a
}

pub fn machinery(msg: &str) -> ! {
    eprintln!("MACHINERY-ERROR: {msg}");
    std::process::exit(2)
}

fn seed() -> u64 {
    std::env::var("VERIF_SEED")
        .ok()
        .and_then(|s| s.parse::<i64>().ok())
        .map(|v| v as u64)
        .unwrap_or(0)
}

/// Entry point of every check binary.
pub fn main(check: &dyn Check) -> ! {
    // eyre captures a backtrace per error when RUST_BACKTRACE is set, which costs
    // milliseconds per Err: the subject returns millions of them during enumeration.
    std::env::set_var("RUST_BACKTRACE", "0");
    std::env::set_var("RUST_LIB_BACKTRACE", "0");
    let args = parse_args();
    let specs = check.specs();
    let property = args
        .property
        .clone()
        .unwrap_or_else(|| specs[0].property.to_string());
    let spec = specs
        .iter()
        .find(|s| s.property == property)
        .cloned()
        .unwrap_or_else(|| machinery(&format!("binary does not serve property {property}")));
    let seed = seed();

    // ---- worker mode --------------------------------------------------
    if let Some((i, n)) = args.worker {
        let scratch = args.scratch.clone().unwrap_or_else(|| machinery("worker without --scratch"));
        std::fs::create_dir_all(&scratch).ok();
        let ctx = Ctx {
            property: property.clone(),
            tier: args.tier,
            seed,
            worker: i,
            workers: n,
            scratch: scratch.clone(),
            deadline: Instant::now() + Duration::from_secs(args.deadline_s.unwrap_or(3600)),
            opts: args.opts.clone(),
        };
        let mut rep = Reporter::new(&property, Some(scratch.join("current_case")));
        quiet_panics();
        if let Err(p) = catch(|| check.run(&ctx, &mut rep)) {
            eprintln!("HARNESS-PANIC (outside any oracle): {p}");
            std::process::exit(101);
        }
        let out = args.report.unwrap_or_else(|| machinery("worker without --report"));
        rep.finish().write(&out);
        std::process::exit(0);
    }
    // ---- replay of one case inside a sub-process ----------------------
    if let Some(path) = args.replay_worker {
        let scratch = args.scratch.clone().unwrap_or_else(|| machinery("replay-worker without --scratch"));
        std::fs::create_dir_all(&scratch).ok();
        let case: Value = serde_json::from_slice(&std::fs::read(&path).unwrap_or_else(|e| machinery(&format!("read {path:?}: {e}"))))
            .unwrap_or_else(|e| machinery(&format!("parse {path:?}: {e}")));
        let ctx = Ctx {
            property: property.clone(),
            tier: args.tier,
            seed,
            worker: 0,
            workers: 1,
            scratch: scratch.clone(),
            deadline: Instant::now() + Duration::from_secs(600),
            opts: args.opts.clone(),
        };
        let mut rep = Reporter::new(&property, Some(scratch.join("current_case")));
        quiet_panics();
        if let Err(p) = catch(|| check.replay(&ctx, &case, &mut rep)) {
            eprintln!("HARNESS-PANIC (outside any oracle): {p}");
            std::process::exit(101);
        }
        let out = args.report.unwrap_or_else(|| machinery("replay-worker without --report"));
        rep.finish().write(&out);
        std::process::exit(0);
    }

    let root = verif_root();
    let scratch_root = PathBuf::from(format!("/dev/shm/turdb_verif/{}_{}", property, std::process::id()));
    let _ = std::fs::remove_dir_all(&scratch_root);
    // scratch directories of earlier runs of this property whose process is gone
    // (a run that ended in a machinery error skips its drop guard)
    if let Ok(rd) = std::fs::read_dir("/dev/shm/turdb_verif") {
        for e in rd.filter_map(|e| e.ok()) {
            let name = e.file_name().to_string_lossy().to_string();
            if let Some(pid) = name.strip_prefix(&format!("{property}_")).and_then(|p| p.parse::<u32>().ok()) {
                if !Path::new(&format!("/proc/{pid}")).exists() {
                    let _ = std::fs::remove_dir_all(e.path());
                }
            }
        }
    }
    std::fs::create_dir_all(&scratch_root).unwrap_or_else(|e| machinery(&format!("scratch: {e}")));
    let _guard = util::RmOnDrop(scratch_root.clone());

    // ---- user-facing replay -------------------------------------------
    if let Some(path) = args.replay {
        let doc: Value = serde_json::from_slice(&std::fs::read(&path).unwrap_or_else(|e| machinery(&format!("read {path:?}: {e}"))))
            .unwrap_or_else(|e| machinery(&format!("parse: {e}")));
        let case = doc.get("case").cloned().unwrap_or(doc.clone());
        let (r, died) = run_replay(&property, args.tier, &args.opts, &case, &scratch_root, 0);
        let mut found = false;
        if let Some(r) = r {
            for v in r.violations.iter().filter(|v| v.property == property) {
                found = true;
                println!("REPLAY-VIOLATION property={} signature={}", v.property, v.signature);
                println!("  expected: {}", util::clip(&v.expected, 600));
                println!("  observed: {}", util::clip(&v.observed, 600));
            }
        }
        if let Some(d) = died {
            found = true;
            println!("REPLAY-VIOLATION property={} signature=crash/{}", property, d);
        }
        if !found {
            println!("REPLAY-OK property={property} (case does not violate on this tree)");
        }
        drop(_guard);
        std::process::exit(if found { 1 } else { 0 });
    }

    // ---- parent mode ----------------------------------------------------
    let t0 = Instant::now();
    let cap = match args.tier {
        Tier::Quick => spec.cap_quick_s,
        Tier::Thorough => spec.cap_thorough_s,
    };
    // development aid (e.g. evaluating a seeded change on a heavily loaded machine): a longer wall cap
    let cap = std::env::var("VERIF_CAP_S").ok().and_then(|s| s.parse::<u64>().ok()).unwrap_or(cap);
    let n = args.jobs.min(spec.max_workers).max(1);
    let exe = std::env::current_exe().unwrap();
    let mut children = Vec::new();
    for i in 0..n {
        let wdir = scratch_root.join(format!("w{i}"));
        std::fs::create_dir_all(&wdir).unwrap();
        let rpt = scratch_root.join(format!("report{i}.json"));
        let mut c = Command::new(&exe);
        c.arg("--property").arg(&property)
            .arg("--tier").arg(args.tier.name())
            .arg("--worker").arg(format!("{i}/{n}"))
            .arg("--report").arg(&rpt)
            .arg("--scratch").arg(&wdir)
            .arg("--deadline-s").arg(cap.to_string());
        for (k, v) in &args.opts {
            c.arg("--opt").arg(format!("{k}={v}"));
        }
        c.stdin(Stdio::null()).stdout(Stdio::null());
        let errf = std::fs::File::create(scratch_root.join(format!("stderr{i}.txt"))).unwrap();
        c.stderr(errf);
        let child = c.spawn().unwrap_or_else(|e| machinery(&format!("spawn worker: {e}")));
        children.push((i, child, rpt, wdir));
    }
    // wait with a hard cap (3x the soft deadline + 60 s)
    let hard = Duration::from_secs(cap * 3 + 60);
    let mut merged = WorkerReport::empty(&property);
    let mut died: Vec<(usize, String, String)> = Vec::new();
    let mut capped = false;
    for (i, mut child, rpt, wdir) in children {
        let status = loop {
            match child.try_wait() {
                Ok(Some(s)) => break Some(s),
                Ok(None) => {
                    if t0.elapsed() > hard {
                        let _ = child.kill();
                        let _ = child.wait();
                        break None;
                    }
                    std::thread::sleep(Duration::from_millis(20));
                }
                Err(e) => machinery(&format!("wait: {e}")),
            }
        };
        let cur = std::fs::read_to_string(wdir.join("current_case")).unwrap_or_default();
        let ok = matches!(status, Some(s) if s.success());
        if ok {
            match WorkerReport::read(&rpt) {
                Some(r) => merged.merge(r),
                None => machinery(&format!("worker {i} wrote no report")),
            }
        } else {
            let how = match status {
                None => "timeout".to_string(),
                Some(s) => {
                    use std::os::unix::process::ExitStatusExt;
                    if let Some(sig) = s.signal() {
                        format!("signal{sig}")
                    } else {
                        format!("exit{}", s.code().unwrap_or(-1))
                    }
                }
            };
            let stderr = std::fs::read_to_string(scratch_root.join(format!("stderr{i}.txt"))).unwrap_or_default();
            if !spec.crash_is_verdict {
                eprintln!("{}", util::clip(&stderr, 4000));
                machinery(&format!("worker {i} died ({how}) while running case: {}", util::clip(&cur, 400)));
            }
            died.push((i, how, cur));
            let _ = stderr;
        }
    }
    if merged.capped {
        capped = true;
    }
    for (_i, how, cur) in &died {
        // a dead worker: the case it was running is the verdict; the rest of its slice is unexplored
        capped = true;
        let case: Value = serde_json::from_str(cur).unwrap_or(Value::String(cur.clone()));
        merged.violations.push(Violation {
            property: property.clone(),
            oracle: "no-crash".into(),
            signature: format!("{}/crash/{}", property, how),
            case,
            expected: "call returns Ok or Err".into(),
            observed: format!("worker process died: {how}"),
        });
    }

    // ---- findings ---------------------------------------------------------
    let kf = findings::Findings::load(&root.join("known_findings.json"));
    let mine: Vec<&Violation> = merged.violations.iter().filter(|v| v.property == property).collect();
    let mut known: BTreeMap<String, (u64, String)> = BTreeMap::new(); // finding id -> (count, what)
    let mut fresh: BTreeMap<String, Vec<&Violation>> = BTreeMap::new(); // signature -> examples
    for v in &mine {
        match kf.match_open(&property, &v.signature) {
            Some(f) => {
                let e = known.entry(f.id.clone()).or_insert((0, f.what.clone()));
                e.0 += 1;
            }
            None => fresh.entry(v.signature.clone()).or_default().push(v),
        }
    }
    // counts from workers that only kept the first examples per signature
    for (sig, cnt) in &merged.sig_counts {
        if let Some(f) = kf.match_open(&property, sig) {
            let e = known.entry(f.id.clone()).or_insert((0, f.what.clone()));
            e.0 = e.0.max(*cnt);
        }
    }

    // ---- determinism gate: re-execute one example per fresh signature ------
    let replay_dir = root.join("replays").join(&property);
    let mut violation_lines = Vec::new();
    let mut k = 0;
    for (sig, exs) in &fresh {
        let v = exs[0];
        std::fs::create_dir_all(&replay_dir).ok();
        let h = util::hash_str(&format!("{}|{}", sig, v.case));
        let path = replay_dir.join(format!("{:016x}.json", h));
        let doc = json!({"property": property, "signature": sig, "oracle": v.oracle, "case": v.case,
                         "expected": v.expected, "observed": v.observed,
                         "replay_cmd": format!("./check {} --replay {}", property, path.display())});
        std::fs::write(&path, serde_json::to_vec_pretty(&doc).unwrap()).ok();
        if k < 12 && !sig.contains("/crash/") {
            k += 1;
            let (r, d) = run_replay(&property, args.tier, &args.opts, &v.case, &scratch_root, k);
            let same = match (&r, &d) {
                (Some(r), None) => r.violations.iter().any(|x| x.property == property && &x.signature == sig),
                _ => false,
            };
            if !same {
                let got: Vec<String> = r.map(|r| r.violations.iter().map(|x| x.signature.clone()).collect()).unwrap_or_default();
                machinery(&format!(
                    "replay of {} did not reproduce signature {} (got {:?}, died {:?}) — nondeterministic harness",
                    path.display(), sig, got, d));
            }
        }
        violation_lines.push(format!("VIOLATION property={} replay={} signature={} cases={}", property, path.display(), sig, merged.sig_counts.get(sig).copied().unwrap_or(exs.len() as u64)));
    }

    // ---- evidence ---------------------------------------------------------
    let wall = t0.elapsed().as_secs_f64();
    if merged.evaluations == 0 {
        machinery("nothing explored");
    }
    let exhaustive = !capped && !merged.capped;
    let mut coverage = serde_json::Map::new();
    coverage.insert("evaluations".into(), json!(merged.evaluations));
    coverage.insert("distinct_nontrivial".into(), json!(merged.distinct.len() as u64 + merged.distinct_counted));
    coverage.insert("rule".into(), json!(spec.rule));
    if merged.samples.is_empty() {
        // a check that samples at the end of its run and was cut short by its wall cap: fall back to
        // the first recorded violation case (an actual case of this run); absent even that, say so
        if let Some(v) = merged.violations.first() {
            merged.samples.push(json!({"from": "first recorded violation of this run", "case": v.case}));
        }
    }
    coverage.insert("samples".into(), json!(merged.samples));
    coverage.insert("exhaustive".into(), json!(exhaustive));
    if spec.level == "model_checking" {
        coverage.insert("states".into(), json!(merged.states.max(1)));
        coverage.insert("transitions".into(), json!(merged.transitions.max(1)));
        coverage.insert("traces_validated_against_impl".into(), json!(merged.traces_validated));
    }
    coverage.insert("distinct_outcomes".into(), json!(merged.outcomes.len()));
    coverage.insert("counters".into(), json!(merged.counters));
    coverage.insert("bounds".into(), json!(merged.bounds));
    let vac: Vec<&String> = merged.expect_nonzero.iter().filter(|k| merged.counters.get(*k).copied().unwrap_or(0) == 0).collect();
    coverage.insert("vacuous".into(), json!(vac));
    coverage.insert("known_findings".into(), json!(known.iter().map(|(id, (c, w))| json!({"id": id, "cases": c, "what": w})).collect::<Vec<_>>()));
    coverage.insert("new_violation_signatures".into(), json!(fresh.keys().collect::<Vec<_>>()));
    coverage.insert("pruned_by_divergence".into(), json!(merged.pruned));
    coverage.insert("workers".into(), json!(n));
    if !merged.notes.is_empty() {
        coverage.insert("notes".into(), json!(merged.notes));
    }
    let ev = json!({
        "property_id": property,
        "tier": args.tier.name(),
        "seed": seed as i64,
        "level": spec.level,
        "coverage": Value::Object(coverage),
        "assumptions": spec.assumptions,
        "wall_s": wall,
        "violations": fresh.len(),
    });
    let evdir = root.join("evidence");
    std::fs::create_dir_all(&evdir).ok();
    let evpath = evdir.join(format!("{}.json", property));
    std::fs::write(&evpath, serde_json::to_vec_pretty(&ev).unwrap()).unwrap_or_else(|e| machinery(&format!("write evidence: {e}")));

    // ---- verdict ------------------------------------------------------------
    let out = std::io::stdout();
    let mut out = out.lock();
    for v in &vac {
        eprintln!("VACUITY-WARNING property={} counter {} is zero", property, v);
    }
    for (id, (c, w)) in &known {
        writeln!(out, "KNOWN-FINDING: property={} {} [{}] ({} cases)", property, w, id, c).ok();
    }
    for f in kf.open_for(&property) {
        if !known.contains_key(&f.id) {
            eprintln!("NOTE: open finding {} matched no violation on this run (repaired, or outside this tier)", f.id);
        }
    }
    for l in &violation_lines {
        writeln!(out, "{l}").ok();
    }
    writeln!(
        out,
        "SUMMARY property={} tier={} evaluations={} states={} transitions={} distinct={} outcomes={} known={} new={} exhaustive={} wall_s={:.1}",
        property, args.tier.name(), merged.evaluations, merged.states, merged.transitions,
        merged.distinct.len() as u64 + merged.distinct_counted, merged.outcomes.len(), known.len(), fresh.len(), exhaustive, wall
    ).ok();
    out.flush().ok();
    drop(_guard);
    std::process::exit(if fresh.is_empty() { 0 } else { 1 });
}

fn run_replay(
    property: &str,
    tier: Tier,
    opts: &BTreeMap<String, String>,
    case: &Value,
    scratch_root: &Path,
    k: usize,
) -> (Option<WorkerReport>, Option<String>) {
    let exe = std::env::current_exe().unwrap();
    let wdir = scratch_root.join(format!("replay{k}"));
    std::fs::create_dir_all(&wdir).unwrap();
    let cpath = wdir.join("case.json");
    std::fs::write(&cpath, serde_json::to_vec(case).unwrap()).unwrap();
    let rpt = wdir.join("report.json");
    let mut c = Command::new(&exe);
    c.arg("--property").arg(property)
        .arg("--tier").arg(tier.name())
        .arg("--replay-worker").arg(&cpath)
        .arg("--report").arg(&rpt)
        .arg("--scratch").arg(wdir.join("s"));
    for (k, v) in opts {
        c.arg("--opt").arg(format!("{k}={v}"));
    }
    c.stdin(Stdio::null()).stdout(Stdio::null()).stderr(Stdio::null());
    let mut child = c.spawn().unwrap_or_else(|e| machinery(&format!("spawn replay: {e}")));
    let t0 = Instant::now();
    let status = loop {
        match child.try_wait() {
            Ok(Some(s)) => break Some(s),
            Ok(None) => {
                if t0.elapsed() > Duration::from_secs(300) {
                    let _ = child.kill();
                    let _ = child.wait();
                    break None;
                }
                std::thread::sleep(Duration::from_millis(5));
            }
            Err(e) => machinery(&format!("wait: {e}")),
        }
    };
    match status {
        Some(s) if s.success() => (WorkerReport::read(&rpt), None),
        Some(s) => {
            use std::os::unix::process::ExitStatusExt;
            let how = s.signal().map(|x| format!("signal{x}")).unwrap_or_else(|| format!("exit{}", s.code().unwrap_or(-1)));
            (None, Some(how))
        }
        None => (None, Some("timeout".into())),
    }
}

/// Panics inside `catch_unwind` are expected outcomes for many oracles: keep
/// stderr readable by silencing the default hook (message kept in a
/// thread-local for the oracle to read).
pub fn quiet_panics() {
    std::panic::set_hook(Box::new(|info| {
        let msg = if let Some(s) = info.payload().downcast_ref::<&str>() {
            s.to_string()
        } else if let Some(s) = info.payload().downcast_ref::<String>() {
            s.clone()
        } else {
            "panic".to_string()
        };
        let loc = info.location().map(|l| format!("{}:{}", l.file(), l.line())).unwrap_or_default();
        util::LAST_PANIC.with(|p| *p.borrow_mut() = format!("{msg} @ {loc}"));
    }));
}

/// Run `f`, turning a panic into `Err(message @ location)`.
pub fn catch<T>(f: impl FnOnce() -> T) -> Result<T, String> {
    match std::panic::catch_unwind(std::panic::AssertUnwindSafe(f)) {
        Ok(v) => Ok(v),
        Err(_) => Err(util::LAST_PANIC.with(|p| p.borrow().clone())),
    }
}
