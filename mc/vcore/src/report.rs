use serde::{Deserialize, Serialize};
use serde_json::Value;
use std::collections::{BTreeMap, BTreeSet, HashSet};
use std::io::{Seek, SeekFrom, Write};
use std::path::{Path, PathBuf};

#[derive(Clone, Debug, Serialize, Deserialize)]
pub struct Violation {
    pub property: String,
    /// name of the sub-oracle that fired (layered oracles)
    pub oracle: String,
    /// canonical, count-free signature used to match known findings
    pub signature: String,
    /// everything needed to re-execute the case
    pub case: Value,
    pub expected: String,
    pub observed: String,
}

#[derive(Clone, Debug, Serialize, Deserialize)]
pub struct WorkerReport {
    pub property: String,
    pub evaluations: u64,
    pub states: u64,
    pub transitions: u64,
    pub traces_validated: u64,
    #[serde(skip)]
    pub distinct: HashSet<u64>,
    pub distinct_file: Option<String>,
    pub distinct_overflow: u64,
    /// cases counted as distinct by construction (disjoint enumeration slices), not hashed
    pub distinct_counted: u64,
    pub outcomes: BTreeSet<String>,
    pub counters: BTreeMap<String, u64>,
    pub expect_nonzero: BTreeSet<String>,
    pub bounds: BTreeMap<String, Value>,
    pub samples: Vec<Value>,
    pub violations: Vec<Violation>,
    pub sig_counts: BTreeMap<String, u64>,
    pub pruned: u64,
    pub capped: bool,
    pub notes: BTreeSet<String>,
}

impl WorkerReport {
    pub fn empty(property: &str) -> Self {
        WorkerReport {
            property: property.to_string(),
            evaluations: 0,
            states: 0,
            transitions: 0,
            traces_validated: 0,
            distinct: HashSet::new(),
            distinct_file: None,
            distinct_overflow: 0,
            distinct_counted: 0,
            outcomes: BTreeSet::new(),
            counters: BTreeMap::new(),
            expect_nonzero: BTreeSet::new(),
            bounds: BTreeMap::new(),
            samples: Vec::new(),
            violations: Vec::new(),
            sig_counts: BTreeMap::new(),
            pruned: 0,
            capped: false,
            notes: BTreeSet::new(),
        }
    }
    pub fn write(mut self, path: &Path) {
        let df = path.with_extension("distinct");
        let mut bytes = Vec::with_capacity(self.distinct.len() * 8);
        for h in &self.distinct {
            bytes.extend_from_slice(&h.to_le_bytes());
        }
        std::fs::write(&df, bytes).expect("write distinct");
        self.distinct_file = Some(df.to_string_lossy().to_string());
        let tmp = path.with_extension("tmp");
        std::fs::write(&tmp, serde_json::to_vec(&self).expect("serialize report")).expect("write report");
        std::fs::rename(&tmp, path).expect("rename report");
    }
    pub fn read(path: &Path) -> Option<Self> {
        let b = std::fs::read(path).ok()?;
        let mut r: WorkerReport = serde_json::from_slice(&b).ok()?;
        if let Some(df) = &r.distinct_file {
            if let Ok(bytes) = std::fs::read(df) {
                for c in bytes.chunks_exact(8) {
                    r.distinct.insert(u64::from_le_bytes(c.try_into().unwrap()));
                }
            }
        }
        Some(r)
    }
    pub fn merge(&mut self, o: WorkerReport) {
        self.evaluations += o.evaluations;
        self.states += o.states;
        self.transitions += o.transitions;
        self.traces_validated += o.traces_validated;
        self.distinct.extend(o.distinct);
        self.distinct_counted += o.distinct_counted;
        self.distinct_overflow += 0 * o.distinct_overflow; // overflow is never counted as distinct (conservative)
        if o.distinct_overflow > 0 {
            self.notes.insert(format!("distinct-case set overflowed in a worker ({} cases not hashed): distinct_nontrivial is a lower bound", o.distinct_overflow));
        }
        for x in o.outcomes {
            if self.outcomes.len() < 4096 {
                self.outcomes.insert(x);
            }
        }
        for (k, v) in o.counters {
            *self.counters.entry(k).or_insert(0) += v;
        }
        self.expect_nonzero.extend(o.expect_nonzero);
        for (k, v) in o.bounds {
            self.bounds.entry(k).or_insert(v);
        }
        for s in o.samples {
            if self.samples.len() < 6 && !self.samples.contains(&s) {
                self.samples.push(s);
            }
        }
        for v in o.violations {
            let n = self.violations.iter().filter(|x| x.signature == v.signature).count();
            if n < 3 {
                self.violations.push(v);
            }
        }
        for (k, v) in o.sig_counts {
            *self.sig_counts.entry(k).or_insert(0) += v;
        }
        self.pruned += o.pruned;
        self.capped |= o.capped;
        self.notes.extend(o.notes);
    }
}

/// Per-worker accumulator handed to the check.
pub struct Reporter {
    r: WorkerReport,
    cur: Option<std::fs::File>,
    _cur_path: Option<PathBuf>,
    per_sig: BTreeMap<String, u32>,
}

const DISTINCT_CAP: usize = 6_000_000;

impl Reporter {
    pub fn new(property: &str, cur: Option<PathBuf>) -> Self {
        let f = cur.as_ref().and_then(|p| std::fs::File::create(p).ok());
        Reporter { r: WorkerReport::empty(property), cur: f, _cur_path: cur, per_sig: BTreeMap::new() }
    }
    pub fn property(&self) -> &str {
        &self.r.property
    }
    /// Record (cheaply) the case about to run so that a dying worker can be
    /// attributed to it.
    pub fn begin_case(&mut self, desc: &str) {
        if let Some(f) = &mut self.cur {
            let _ = f.seek(SeekFrom::Start(0));
            let _ = f.write_all(desc.as_bytes());
            let _ = f.set_len(desc.len() as u64);
        }
    }
    /// One case explored.  `hash` identifies the case; `nontrivial` by the
    /// check's stated rule.
    #[inline]
    pub fn case(&mut self, hash: u64, nontrivial: bool) {
        self.r.evaluations += 1;
        if nontrivial {
            if self.r.distinct.len() < DISTINCT_CAP {
                self.r.distinct.insert(hash);
            } else {
                self.r.distinct_overflow += 1;
            }
        }
    }
    /// `n` cases explored that are pairwise distinct by construction of the
    /// enumeration (each enumerated exactly once across all workers).
    #[inline]
    pub fn bulk(&mut self, n: u64, nontrivial: u64) {
        self.r.evaluations += n;
        self.r.distinct_counted += nontrivial;
    }
    pub fn evaluations(&self) -> u64 {
        self.r.evaluations
    }
    #[inline]
    pub fn add_states(&mut self, n: u64) {
        self.r.states += n;
    }
    #[inline]
    pub fn add_transitions(&mut self, n: u64) {
        self.r.transitions += n;
    }
    #[inline]
    pub fn add_traces_validated(&mut self, n: u64) {
        self.r.traces_validated += n;
    }
    pub fn outcome(&mut self, o: &str) {
        if self.r.outcomes.len() < 2048 && !self.r.outcomes.contains(o) {
            self.r.outcomes.insert(o.to_string());
        }
    }
    #[inline]
    pub fn count(&mut self, name: &str, n: u64) {
        if let Some(c) = self.r.counters.get_mut(name) {
            *c += n;
        } else {
            self.r.counters.insert(name.to_string(), n);
        }
    }
    /// Declare that the bound promises this counter to be non-zero.
    pub fn expect_nonzero(&mut self, name: &str) {
        self.r.expect_nonzero.insert(name.to_string());
        self.r.counters.entry(name.to_string()).or_insert(0);
    }
    pub fn bound(&mut self, k: &str, v: Value) {
        self.r.bounds.insert(k.to_string(), v);
    }
    pub fn sample(&mut self, v: impl FnOnce() -> Value) {
        if self.r.samples.len() < 3 {
            self.r.samples.push(v());
        }
    }
    pub fn note(&mut self, s: &str) {
        self.r.notes.insert(s.to_string());
    }
    pub fn pruned(&mut self, n: u64) {
        self.r.pruned += n;
    }
    /// enumeration stopped early (deadline / size cap) — run is not exhaustive
    pub fn capped(&mut self, why: &str) {
        self.r.capped = true;
        self.r.notes.insert(format!("capped: {why}"));
    }
    pub fn violation(&mut self, property: &str, oracle: &str, signature: &str, case: impl FnOnce() -> Value, expected: &str, observed: &str) {
        *self.r.sig_counts.entry(signature.to_string()).or_insert(0) += 1;
        let n = self.per_sig.entry(signature.to_string()).or_insert(0);
        if *n < 2 {
            *n += 1;
            self.r.violations.push(Violation {
                property: property.to_string(),
                oracle: oracle.to_string(),
                signature: signature.to_string(),
                case: case(),
                expected: crate::util::clip(expected, 2000),
                observed: crate::util::clip(observed, 2000),
            });
        }
    }
    pub fn violation_count(&self) -> u64 {
        self.r.sig_counts.values().sum()
    }
    pub fn finish(self) -> WorkerReport {
        self.r
    }
}
