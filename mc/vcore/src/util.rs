use std::cell::RefCell;
use std::hash::{Hash, Hasher};
use std::path::PathBuf;

thread_local! {
    pub static LAST_PANIC: RefCell<String> = RefCell::new(String::new());
}

pub struct RmOnDrop(pub PathBuf);
impl Drop for RmOnDrop {
    fn drop(&mut self) {
        let _ = std::fs::remove_dir_all(&self.0);
    }
}

pub fn clip(s: &str, n: usize) -> String {
    if s.len() <= n {
        s.to_string()
    } else {
        let mut e = n;
        while !s.is_char_boundary(e) {
            e -= 1;
        }
        format!("{}…[{} bytes]", &s[..e], s.len())
    }
}

/// Deterministic 64-bit hash (SipHash with fixed zero keys).
pub fn hash_of<T: Hash + ?Sized>(t: &T) -> u64 {
    #[allow(deprecated)]
    let mut h = std::hash::SipHasher::new();
    t.hash(&mut h);
    h.finish()
}
pub fn hash_str(s: &str) -> u64 {
    hash_of(s.as_bytes())
}
pub fn hash_bytes(b: &[u8]) -> u64 {
    hash_of(b)
}
/// 128-bit state hash from two differently keyed SipHashes.
pub fn hash128(b: &[u8]) -> u128 {
    #[allow(deprecated)]
    let mut h1 = std::hash::SipHasher::new_with_keys(0x0123456789abcdef, 0xfedcba9876543210);
    #[allow(deprecated)]
    let mut h2 = std::hash::SipHasher::new_with_keys(0x9e3779b97f4a7c15, 0xc2b2ae3d27d4eb4f);
    b.hash(&mut h1);
    b.hash(&mut h2);
    ((h1.finish() as u128) << 64) | h2.finish() as u128
}

/// Fresh empty directory under `base` named `name` (removed first if present).
pub fn fresh_dir(base: &std::path::Path, name: &str) -> PathBuf {
    let p = base.join(name);
    let _ = std::fs::remove_dir_all(&p);
    std::fs::create_dir_all(&p).expect("create scratch dir");
    p
}

pub fn hex(b: &[u8]) -> String {
    let mut s = String::with_capacity(b.len() * 2);
    for x in b {
        s.push_str(&format!("{:02x}", x));
    }
    s
}
pub fn unhex(s: &str) -> Vec<u8> {
    (0..s.len() / 2).map(|i| u8::from_str_radix(&s[2 * i..2 * i + 2], 16).unwrap_or(0)).collect()
}
