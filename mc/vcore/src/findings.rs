//! Read-only matcher for /verif/known_findings.json (never written at run time).
use serde::Deserialize;
use std::path::Path;

#[derive(Clone, Debug, Deserialize)]
pub struct Finding {
    pub id: String,
    pub property: String,
    /// "open" (suppresses matching violations, prints KNOWN-FINDING) or
    /// "fixed" (matches nothing; kept as a record)
    pub status: String,
    #[serde(default)]
    pub signatures: Vec<String>,
    #[serde(default)]
    pub what: String,
    #[serde(default, rename = "where")]
    pub where_: String,
    #[serde(default)]
    pub commit: String,
    #[serde(default)]
    pub example: serde_json::Value,
}

#[derive(Clone, Debug, Deserialize, Default)]
pub struct Findings {
    #[serde(default)]
    pub findings: Vec<Finding>,
}

impl Findings {
    pub fn load(path: &Path) -> Findings {
        let mut all = match std::fs::read(path) {
            Ok(b) => serde_json::from_slice(&b).unwrap_or_else(|e| crate::machinery(&format!("known_findings.json does not parse: {e}"))),
            Err(_) => Findings::default(),
        };
        // per-property fragments (committed; same format) — merged read-only
        if let Some(dir) = path.parent().map(|p| p.join("findings.d")) {
            let mut names: Vec<_> = std::fs::read_dir(&dir).map(|d| d.filter_map(|e| e.ok()).map(|e| e.path()).collect()).unwrap_or_default();
            names.sort();
            for f in names {
                if f.extension().map(|e| e == "json").unwrap_or(false) {
                    let b = std::fs::read(&f).unwrap_or_default();
                    let part: Findings = serde_json::from_slice(&b).unwrap_or_else(|e| crate::machinery(&format!("{} does not parse: {e}", f.display())));
                    all.findings.extend(part.findings);
                }
            }
        }
        all
    }
    pub fn match_open(&self, property: &str, sig: &str) -> Option<&Finding> {
        self.findings
            .iter()
            .find(|f| f.status == "open" && f.property == property && f.signatures.iter().any(|p| glob(p, sig)))
    }
    pub fn open_for<'a>(&'a self, property: &'a str) -> impl Iterator<Item = &'a Finding> + 'a {
        self.findings.iter().filter(move |f| f.status == "open" && f.property == property)
    }
}

/// `*` matches any run of characters except '/', so a glob can only stand for
/// one signature component (the operand-kind position), never for a whole
/// class of signatures.
pub fn glob(pat: &str, s: &str) -> bool {
    fn go(p: &[u8], s: &[u8]) -> bool {
        match p.first() {
            None => s.is_empty(),
            Some(b'*') => {
                let mut i = 0;
                loop {
                    if go(&p[1..], &s[i..]) {
                        return true;
                    }
                    if i >= s.len() || s[i] == b'/' {
                        return false;
                    }
                    i += 1;
                }
            }
            Some(&c) => !s.is_empty() && s[0] == c && go(&p[1..], &s[1..]),
        }
    }
    go(pat.as_bytes(), s.as_bytes())
}

#[cfg(test)]
mod tests {
    use super::glob;
    #[test]
    fn globs() {
        assert!(glob("C14/where/NOT(cmp_*)/F>T", "C14/where/NOT(cmp_int)/F>T"));
        assert!(!glob("C14/where/*/F>T", "C14/where/a/b/F>T"));
        assert!(!glob("C14/where/NOT(cmp_*)/F>T", "C14/where/NOT(cmp_int)/T>F"));
        assert!(glob("abc", "abc"));
        assert!(!glob("abc", "abcd"));
    }
}
