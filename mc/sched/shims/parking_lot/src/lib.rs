//! parking_lot 0.12 API subset over `shuttle::sync` (only what TurDB uses).
//!
//! Each parking_lot operation maps to exactly one shuttle operation, so the set
//! of scheduling points is the set of real synchronisation operations.
//! Differences, all on the safe side for the properties checked:
//!  * no poisoning (as parking_lot): a poisoned shuttle lock is entered anyway;
//!  * `Condvar::wait_for` never times out (a lost wake-up is then a deadlock that
//!    shuttle reports, instead of a 30 s timeout that hides it);
//!  * RwLock fairness is shuttle's (no writer preference).
use std::cell::UnsafeCell;
use std::ops::{Deref, DerefMut};
use std::time::Duration;

// ---------------------------------------------------------------- Mutex
pub struct Mutex<T: ?Sized> {
    inner: shuttle::sync::Mutex<T>,
}
pub struct MutexGuard<'a, T: ?Sized> {
    g: Option<shuttle::sync::MutexGuard<'a, T>>,
}
impl<T> Mutex<T> {
    pub const fn new(v: T) -> Self {
        Mutex { inner: shuttle::sync::Mutex::new(v) }
    }
    pub fn into_inner(self) -> T {
        self.inner.into_inner().unwrap_or_else(|e| e.into_inner())
    }
}
impl<T: ?Sized> Mutex<T> {
    pub fn lock(&self) -> MutexGuard<'_, T> {
        MutexGuard { g: Some(self.inner.lock().unwrap_or_else(|e| e.into_inner())) }
    }
    pub fn try_lock(&self) -> Option<MutexGuard<'_, T>> {
        match self.inner.try_lock() {
            Ok(g) => Some(MutexGuard { g: Some(g) }),
            Err(std::sync::TryLockError::Poisoned(e)) => Some(MutexGuard { g: Some(e.into_inner()) }),
            Err(std::sync::TryLockError::WouldBlock) => None,
        }
    }
    pub fn get_mut(&mut self) -> &mut T {
        self.inner.get_mut().unwrap_or_else(|e| e.into_inner())
    }
}
impl<T: Default> Default for Mutex<T> {
    fn default() -> Self {
        Mutex::new(T::default())
    }
}
impl<T: ?Sized + std::fmt::Debug> std::fmt::Debug for Mutex<T> {
    fn fmt(&self, f: &mut std::fmt::Formatter<'_>) -> std::fmt::Result {
        f.write_str("Mutex { .. }")
    }
}
impl<T: ?Sized> Deref for MutexGuard<'_, T> {
    type Target = T;
    fn deref(&self) -> &T {
        self.g.as_ref().expect("guard present")
    }
}
impl<T: ?Sized> DerefMut for MutexGuard<'_, T> {
    fn deref_mut(&mut self) -> &mut T {
        self.g.as_mut().expect("guard present")
    }
}

// ---------------------------------------------------------------- Condvar
pub struct Condvar {
    inner: shuttle::sync::Condvar,
}
pub struct WaitTimeoutResult(bool);
impl WaitTimeoutResult {
    pub fn timed_out(&self) -> bool {
        self.0
    }
}
impl Condvar {
    pub const fn new() -> Self {
        Condvar { inner: shuttle::sync::Condvar::new() }
    }
    pub fn wait<T>(&self, guard: &mut MutexGuard<'_, T>) {
        let g = guard.g.take().expect("guard present");
        let g = self.inner.wait(g).unwrap_or_else(|e| e.into_inner());
        guard.g = Some(g);
    }
    /// Modelled as an untimed wait (see crate docs).
    pub fn wait_for<T>(&self, guard: &mut MutexGuard<'_, T>, _timeout: Duration) -> WaitTimeoutResult {
        self.wait(guard);
        WaitTimeoutResult(false)
    }
    pub fn notify_one(&self) -> bool {
        self.inner.notify_one();
        true
    }
    pub fn notify_all(&self) -> usize {
        self.inner.notify_all();
        0
    }
}
impl Default for Condvar {
    fn default() -> Self {
        Condvar::new()
    }
}
impl std::fmt::Debug for Condvar {
    fn fmt(&self, f: &mut std::fmt::Formatter<'_>) -> std::fmt::Result {
        f.write_str("Condvar { .. }")
    }
}

// ---------------------------------------------------------------- RwLock
/// `shuttle RwLock<()>` + `UnsafeCell<T>`.  The shuttle guard of every
/// acquisition is parked in a side slot inside the lock, the shim guard is a
/// bare reference; dropping the shim guard and `force_unlock_*` both pop the
/// slot — so `mem::forget(guard)` followed by `force_unlock_*` works as with
/// parking_lot.  The slots are only touched while the corresponding shuttle
/// lock is held / being released and shuttle runs one task at a time with no
/// scheduling point inside these few lines, hence the plain UnsafeCells.
pub struct RwLock<T: ?Sized> {
    lock: shuttle::sync::RwLock<()>,
    wslot: UnsafeCell<Option<shuttle::sync::RwLockWriteGuard<'static, ()>>>,
    rslot: UnsafeCell<Vec<(shuttle::scheduler::TaskId, shuttle::sync::RwLockReadGuard<'static, ()>)>>,
    data: UnsafeCell<T>,
}
unsafe impl<T: ?Sized + Send> Send for RwLock<T> {}
unsafe impl<T: ?Sized + Send + Sync> Sync for RwLock<T> {}

pub struct RwLockReadGuard<'a, T: ?Sized> {
    l: &'a RwLock<T>,
}
pub struct RwLockWriteGuard<'a, T: ?Sized> {
    l: &'a RwLock<T>,
}

impl<T> RwLock<T> {
    pub const fn new(v: T) -> Self {
        RwLock { lock: shuttle::sync::RwLock::new(()), wslot: UnsafeCell::new(None), rslot: UnsafeCell::new(Vec::new()), data: UnsafeCell::new(v) }
    }
    pub fn into_inner(self) -> T {
        self.data.into_inner()
    }
}
impl<T: ?Sized> RwLock<T> {
    fn park_read(&self, g: shuttle::sync::RwLockReadGuard<'_, ()>) {
        // SAFETY: the guard borrows self.lock which lives as long as self; it is
        // always popped (dropped) before self can be dropped because a shim guard
        // or a forgotten-guard obligation (force_unlock) borrows self.
        let g: shuttle::sync::RwLockReadGuard<'static, ()> = unsafe { std::mem::transmute(g) };
        unsafe { (*self.rslot.get()).push((shuttle::current::me(), g)) };
    }
    fn park_write(&self, g: shuttle::sync::RwLockWriteGuard<'_, ()>) {
        let g: shuttle::sync::RwLockWriteGuard<'static, ()> = unsafe { std::mem::transmute(g) };
        unsafe { *self.wslot.get() = Some(g) };
    }
    pub fn read(&self) -> RwLockReadGuard<'_, T> {
        let g = self.lock.read().unwrap_or_else(|e| e.into_inner());
        self.park_read(g);
        RwLockReadGuard { l: self }
    }
    pub fn write(&self) -> RwLockWriteGuard<'_, T> {
        let g = self.lock.write().unwrap_or_else(|e| e.into_inner());
        self.park_write(g);
        RwLockWriteGuard { l: self }
    }
    pub fn try_read(&self) -> Option<RwLockReadGuard<'_, T>> {
        match self.lock.try_read() {
            Ok(g) => {
                self.park_read(g);
                Some(RwLockReadGuard { l: self })
            }
            Err(std::sync::TryLockError::Poisoned(e)) => {
                self.park_read(e.into_inner());
                Some(RwLockReadGuard { l: self })
            }
            Err(std::sync::TryLockError::WouldBlock) => None,
        }
    }
    pub fn try_write(&self) -> Option<RwLockWriteGuard<'_, T>> {
        match self.lock.try_write() {
            Ok(g) => {
                self.park_write(g);
                Some(RwLockWriteGuard { l: self })
            }
            Err(std::sync::TryLockError::Poisoned(e)) => {
                self.park_write(e.into_inner());
                Some(RwLockWriteGuard { l: self })
            }
            Err(std::sync::TryLockError::WouldBlock) => None,
        }
    }
    /// # Safety
    /// as parking_lot: a read lock must be held by a forgotten guard.
    pub unsafe fn force_unlock_read(&self) {
        // release the guard that THIS task parked (shuttle tracks lock holders per task)
        let me = shuttle::current::me();
        let v = &mut *self.rslot.get();
        let i = v.iter().rposition(|(t, _)| *t == me).expect("force_unlock_read without a read guard parked by this task");
        let (_, g) = v.remove(i);
        drop(g);
    }
    /// # Safety
    /// as parking_lot: the write lock must be held by a forgotten guard.
    pub unsafe fn force_unlock_write(&self) {
        let g = (*self.wslot.get()).take();
        drop(g.expect("force_unlock_write without a parked write guard"));
    }
    pub fn get_mut(&mut self) -> &mut T {
        self.data.get_mut()
    }
}
impl<T: Default> Default for RwLock<T> {
    fn default() -> Self {
        RwLock::new(T::default())
    }
}
impl<T: ?Sized> std::fmt::Debug for RwLock<T> {
    fn fmt(&self, f: &mut std::fmt::Formatter<'_>) -> std::fmt::Result {
        f.write_str("RwLock { .. }")
    }
}
impl<T: ?Sized> Deref for RwLockReadGuard<'_, T> {
    type Target = T;
    fn deref(&self) -> &T {
        unsafe { &*self.l.data.get() }
    }
}
impl<T: ?Sized> Drop for RwLockReadGuard<'_, T> {
    fn drop(&mut self) {
        unsafe { self.l.force_unlock_read() }
    }
}
impl<T: ?Sized> Deref for RwLockWriteGuard<'_, T> {
    type Target = T;
    fn deref(&self) -> &T {
        unsafe { &*self.l.data.get() }
    }
}
impl<T: ?Sized> DerefMut for RwLockWriteGuard<'_, T> {
    fn deref_mut(&mut self) -> &mut T {
        unsafe { &mut *self.l.data.get() }
    }
}
impl<T: ?Sized> Drop for RwLockWriteGuard<'_, T> {
    fn drop(&mut self) {
        unsafe { self.l.force_unlock_write() }
    }
}
