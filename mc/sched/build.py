#!/usr/bin/env python3
"""build.py <bin> — (re)generates the scheduler-visible copy of /repo and builds one
harness binary against it.  Prints nothing on success; writes the binary path to
.last_bin_path.  Exit 2 on any machinery problem.

Transformation (fails loudly if a listed file/pattern is missing):
  * Cargo.toml: parking_lot -> path shim over shuttle::sync; + shuttle dependency;
    bins/benches/dev-dependencies dropped (not copied).
  * files in atomics.list: std::sync::atomic -> shuttle::sync::atomic,
    std::thread::yield_now -> shuttle::thread::yield_now.
Files are only rewritten when their content changes, so cargo stays incremental.
"""
import os, re, subprocess, sys, fcntl

HERE = os.path.dirname(os.path.abspath(__file__))
REPO = os.environ.get("VERIF_REPO", "/repo")
SRC = os.environ.get("VERIF_SCHED_SRC", "/var/tmp/turdb_verif/sched-src")
TARGET = os.path.join(os.path.dirname(HERE), "target-sched")

def die(msg):
    print("MACHINERY-ERROR: sched build: " + msg, file=sys.stderr); sys.exit(2)

def write_if_changed(path, data: bytes):
    try:
        if open(path, "rb").read() == data:
            return False
    except FileNotFoundError:
        pass
    os.makedirs(os.path.dirname(path), exist_ok=True)
    with open(path, "wb") as f:
        f.write(data)
    return True

def transform_cargo(text):
    out, keep = [], True
    saw_pl = False
    for line in text.splitlines():
        m = re.match(r"^\[+([^\]]+)\]+\s*$", line)
        if m:
            name = m.group(1).strip()
            keep = name in ("package", "features", "dependencies") or name.startswith("target.")
            if name == "features":
                keep = True
        if not keep:
            continue
        if re.match(r"^parking_lot\s*=", line):
            line = 'parking_lot = { path = "%s" }\nshuttle = "0.9"' % os.path.join(HERE, "shims", "parking_lot")
            saw_pl = True
        if re.match(r"^rustyline\s*=", line):
            continue
        if re.match(r'^cli\s*=', line):
            line = "cli = []"
        out.append(line)
    if not saw_pl:
        die("Cargo.toml has no parking_lot dependency line to rewrite")
    return "\n".join(out) + "\n\n[lib]\npath = \"src/lib.rs\"\n"

def main():
    if len(sys.argv) != 2:
        die("usage: build.py <bin>")
    binname = sys.argv[1]
    lockf = open(os.path.join(HERE, ".build.lock"), "w")
    fcntl.flock(lockf, fcntl.LOCK_EX)
    atom = [l.strip() for l in open(os.path.join(HERE, "atomics.list")) if l.strip() and not l.startswith("#")]
    seen = set()
    # Cargo.toml
    write_if_changed(os.path.join(SRC, "Cargo.toml"), transform_cargo(open(os.path.join(REPO, "Cargo.toml")).read()).encode())
    for root, dirs, files in os.walk(os.path.join(REPO, "src")):
        for fn in files:
            p = os.path.join(root, fn)
            rel = os.path.relpath(p, REPO)
            data = open(p, "rb").read()
            if rel in atom:
                s = data.decode()
                n1 = s.count("std::sync::atomic")
                if n1 == 0:
                    die(f"{rel}: listed in atomics.list but has no std::sync::atomic")
                s = s.replace("std::sync::atomic", "shuttle::sync::atomic").replace("std::thread::yield_now", "shuttle::thread::yield_now")
                data = s.encode()
            seen.add(rel)
            write_if_changed(os.path.join(SRC, rel), data)
    for rel in atom:
        if rel not in seen:
            die(f"{rel}: listed in atomics.list but missing from {REPO}")
    # remove files that disappeared upstream
    for root, dirs, files in os.walk(os.path.join(SRC, "src")):
        for fn in files:
            rel = os.path.relpath(os.path.join(root, fn), SRC)
            if rel not in seen:
                os.remove(os.path.join(root, fn))
    hdir = os.path.join(HERE, "harness")
    lock = os.path.join(hdir, "Cargo.lock")
    if not os.path.exists(lock):
        die("harness/Cargo.lock missing (it is committed)")
    env = dict(os.environ)
    env["CARGO_NET_OFFLINE"] = "true"
    env["CARGO_TARGET_DIR"] = TARGET
    r = subprocess.run(["cargo", "build", "--offline", "-q", "--bin", binname], cwd=hdir, env=env, stdout=subprocess.PIPE, stderr=subprocess.STDOUT, text=True)
    if r.returncode != 0:
        sys.stderr.write(r.stdout[-8000:])
        die("cargo build failed")

main()
