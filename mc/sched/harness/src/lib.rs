//! SCHED engine: iterative-context-bounding exploration of the real TurDB code
//! under shuttle's executor (every parking_lot lock operation and every atomic
//! of the files in atomics.list is a scheduling point).
//!
//! A *schedule* is the vector of choices taken at the scheduling points of one
//! execution.  At each point the runnable tasks are put in canonical order:
//! the running task first (continuing it is choice 0 and free; any other
//! choice is a preemption and costs 1), or — when the running task yields
//! (`yield_now` in a spin loop) — the other tasks first in ascending id order
//! (free) and the yielding task last (continuing to spin costs 1, which keeps
//! the space finite), or — when the running task blocked/finished — the other
//! tasks in ascending id order (all free).  The explorer runs, depth first,
//! EVERY schedule whose total cost is <= bound.  Work is partitioned over
//! worker processes by the position of the first non-zero choice.
use shuttle::scheduler::{Schedule, Scheduler, Task, TaskId};
use std::sync::{Arc, Mutex};

#[derive(Clone, Debug)]
struct Point {
    n: u16,
    chosen: u16,
    cost_before: u16,
    /// true when a non-zero choice here costs a preemption
    costs: bool,
    /// all earlier choices of this execution are 0
    prefix_zero: bool,
}

#[derive(Clone, Debug, Default)]
pub struct ExecSummary {
    /// non-zero choices only: (position, choice)
    pub choices: Vec<(u32, u16)>,
    pub preemptions: usize,
    pub steps: usize,
    /// violations recorded by the harness body during this execution: (signature, expected, observed)
    pub events: Vec<(String, String, String)>,
    /// final observation string (for distinct-outcome counting)
    pub outcome: Option<String>,
    /// panic / deadlock message if the execution died
    pub panic: Option<String>,
    /// belongs to this worker's partition
    pub mine: bool,
}

impl ExecSummary {
    pub fn schedule_string(&self) -> String {
        self.choices.iter().map(|(p, c)| format!("{p}:{c}")).collect::<Vec<_>>().join(",")
    }
}

pub fn parse_schedule(s: &str) -> Vec<(u32, u16)> {
    s.split(',')
        .filter(|x| !x.is_empty())
        .filter_map(|x| {
            let (p, c) = x.split_once(':')?;
            Some((p.parse().ok()?, c.parse().ok()?))
        })
        .collect()
}

struct State {
    stack: Vec<Point>,
    replay_len: usize,
    step: usize,
    preempt: usize,
    bound: usize,
    started: bool,
    exhausted: bool,
    part: (usize, usize),
    batch_left: usize,
    // replay mode
    replay: Option<Vec<(u32, u16)>>,
    replay_done: bool,
    diverged: Option<String>,
    // current execution
    cur_events: Vec<(String, String, String)>,
    cur_outcome: Option<String>,
    cur_open: bool,
    ended: Vec<ExecSummary>,
    // statistics
    pub executions: u64,
    pub total_steps: u64,
    pub max_steps_seen: usize,
}

#[derive(Clone)]
pub struct Icb(Arc<Mutex<State>>);

impl Icb {
    pub fn new(bound: usize, part: (usize, usize)) -> Icb {
        Icb(Arc::new(Mutex::new(State {
            stack: Vec::new(),
            replay_len: 0,
            step: 0,
            preempt: 0,
            bound,
            started: false,
            exhausted: false,
            part,
            batch_left: 0,
            replay: None,
            replay_done: false,
            diverged: None,
            cur_events: Vec::new(),
            cur_outcome: None,
            cur_open: false,
            ended: Vec::new(),
            executions: 0,
            total_steps: 0,
            max_steps_seen: 0,
        })))
    }
    pub fn new_replay(choices: Vec<(u32, u16)>) -> Icb {
        let s = Icb::new(usize::MAX, (0, 1));
        s.0.lock().unwrap().replay = Some(choices);
        s
    }
    /// Called from harness bodies (inside an execution): record a violation.
    pub fn event(&self, signature: &str, expected: &str, observed: &str) {
        let mut s = self.0.lock().unwrap();
        if s.cur_events.len() < 16 {
            s.cur_events.push((signature.to_string(), expected.to_string(), observed.to_string()));
        }
    }
    /// Called from harness bodies at the end of an execution.
    pub fn outcome(&self, o: String) {
        self.0.lock().unwrap().cur_outcome = Some(o);
    }
    fn close_current(s: &mut State, panic: Option<String>) {
        if !s.cur_open {
            return;
        }
        s.cur_open = false;
        let choices: Vec<(u32, u16)> = s.stack.iter().enumerate().filter(|(_, p)| p.chosen != 0).map(|(i, p)| (i as u32, p.chosen)).collect();
        let mine = match choices.first() {
            None => s.part.0 == 0,
            Some((p, _)) => (*p as usize) % s.part.1 == s.part.0,
        };
        let sum = ExecSummary {
            choices,
            preemptions: s.preempt,
            steps: s.step,
            events: std::mem::take(&mut s.cur_events),
            outcome: s.cur_outcome.take(),
            panic,
            mine,
        };
        s.executions += 1;
        s.total_steps += s.step as u64;
        s.max_steps_seen = s.max_steps_seen.max(s.step);
        s.ended.push(sum);
    }
    pub fn stats(&self) -> (u64, u64, usize) {
        let s = self.0.lock().unwrap();
        (s.executions, s.total_steps, s.max_steps_seen)
    }
}

impl Scheduler for Icb {
    fn new_execution(&mut self) -> Option<Schedule> {
        let mut s = self.0.lock().unwrap();
        Icb::close_current(&mut s, None);
        if s.exhausted {
            return None;
        }
        if let Some(_) = &s.replay {
            if s.replay_done {
                s.exhausted = true;
                return None;
            }
            s.replay_done = true;
            s.stack.clear();
            s.replay_len = 0;
            s.step = 0;
            s.preempt = 0;
            s.cur_open = true;
            return Some(Schedule::new(0));
        }
        if s.batch_left == 0 {
            return None; // batch boundary; the driver starts a new Runner
        }
        if s.started {
            // backtrack to the deepest point with an affordable alternative inside this worker's partition
            loop {
                let idx = match s.stack.len() {
                    0 => {
                        s.exhausted = true;
                        return None;
                    }
                    n => n - 1,
                };
                let (w, nw) = s.part;
                let bound = s.bound;
                let p = &mut s.stack[idx];
                let next = p.chosen + 1;
                let affordable = !p.costs || (p.cost_before as usize) + 1 <= bound;
                // with a non-zero choice here, is this point the first deviation?
                let in_part = !p.prefix_zero || idx % nw == w;
                if next < p.n && affordable && in_part {
                    p.chosen = next;
                    break;
                }
                // a costing point offers only cost-1 alternatives, so if one is unaffordable all are
                s.stack.pop();
            }
        }
        s.started = true;
        s.batch_left -= 1;
        s.replay_len = s.stack.len();
        s.step = 0;
        s.preempt = 0;
        s.cur_open = true;
        Some(Schedule::new(0))
    }

    fn next_task(&mut self, runnable: &[&Task], current: Option<TaskId>, is_yielding: bool) -> Option<TaskId> {
        let mut s = self.0.lock().unwrap();
        let mut ids: Vec<TaskId> = runnable.iter().map(|t| t.id()).collect();
        ids.sort();
        let cur = current.filter(|c| ids.contains(c));
        let (order, costs): (Vec<TaskId>, bool) = match (cur, is_yielding) {
            (Some(c), false) => (std::iter::once(c).chain(ids.iter().copied().filter(|t| *t != c)).collect(), true),
            (Some(c), true) => {
                if ids.len() == 1 {
                    (ids.clone(), false)
                } else {
                    // others first (free), continuing to spin is the single costing alternative; to keep
                    // "costs" uniform per point, offer only: other tasks (choice 0..k-1 free). Spinning
                    // again while others are runnable is never needed for coverage of terminating runs.
                    (ids.iter().copied().filter(|t| *t != c).collect(), false)
                }
            }
            (None, _) => (ids.clone(), false),
        };
        let step = s.step;
        let idx = if let Some(rp) = &s.replay {
            let c = rp.iter().find(|(p, _)| *p as usize == step).map(|(_, c)| *c as usize).unwrap_or(0);
            if c >= order.len() {
                s.diverged = Some(format!("replay diverged at step {step}: choice {c} of {} options", order.len()));
                0
            } else {
                c
            }
        } else if step < s.replay_len {
            let p = &s.stack[step];
            if p.n as usize != order.len() || p.costs != costs {
                s.diverged = Some(format!("prefix replay diverged at step {step}: {} options (recorded {}), costs {} (recorded {})", order.len(), p.n, costs, p.costs));
                0
            } else {
                p.chosen as usize
            }
        } else {
            let prefix_zero = s.stack.iter().all(|p| p.chosen == 0);
            let cost_before = s.preempt as u16;
            s.stack.push(Point { n: order.len() as u16, chosen: 0, cost_before, costs, prefix_zero });
            0
        };
        if s.replay.is_some() {
            // keep the stack in sync so summaries carry the choices
            let prefix_zero = s.stack.iter().all(|p| p.chosen == 0);
            let cost_before = s.preempt as u16;
            s.stack.push(Point { n: order.len() as u16, chosen: idx as u16, cost_before, costs, prefix_zero });
        }
        if idx > 0 && costs {
            s.preempt += 1;
        }
        s.step += 1;
        Some(order[idx])
    }

    fn next_u64(&mut self) -> u64 {
        0
    }
}

pub struct ExploreResult {
    pub exhausted: bool,
    pub diverged: Option<String>,
}

/// Explore all schedules within the bound (this worker's partition); `sink`
/// receives every finished execution.  `stop()` is polled between batches.
pub fn explore(
    icb: &Icb,
    max_steps: usize,
    body: Arc<dyn Fn() + Send + Sync + 'static>,
    mut sink: impl FnMut(ExecSummary),
    mut stop: impl FnMut() -> bool,
) -> ExploreResult {
    loop {
        {
            let mut s = icb.0.lock().unwrap();
            if s.exhausted {
                return ExploreResult { exhausted: true, diverged: s.diverged.clone() };
            }
            if s.diverged.is_some() {
                return ExploreResult { exhausted: false, diverged: s.diverged.clone() };
            }
            s.batch_left = 512;
        }
        if stop() {
            return ExploreResult { exhausted: false, diverged: None };
        }
        let mut cfg = shuttle::Config::new();
        cfg.max_steps = shuttle::MaxSteps::FailAfter(max_steps);
        cfg.failure_persistence = shuttle::FailurePersistence::None;
        cfg.silence_warnings = true;
        cfg.stack_size = 1 << 20;
        let runner = shuttle::Runner::new(icb.clone(), cfg);
        let b = body.clone();
        let r = std::panic::catch_unwind(std::panic::AssertUnwindSafe(move || {
            runner.run(move || b());
        }));
        let panic_msg = match r {
            Ok(()) => None,
            Err(e) => Some(if let Some(s) = e.downcast_ref::<&str>() {
                s.to_string()
            } else if let Some(s) = e.downcast_ref::<String>() {
                s.clone()
            } else {
                "panic".to_string()
            }),
        };
        let ended = {
            let mut s = icb.0.lock().unwrap();
            if let Some(m) = panic_msg {
                let last = vcore::util::LAST_PANIC.with(|p| p.borrow().clone());
                Icb::close_current(&mut s, Some(format!("{} [{}]", first_line(&m), last)));
            }
            std::mem::take(&mut s.ended)
        };
        for e in ended {
            sink(e);
        }
    }
}

fn first_line(s: &str) -> String {
    s.lines().next().unwrap_or("").chars().take(300).collect()
}

/// Re-execute one schedule; returns its summary.
pub fn replay_one(choices: Vec<(u32, u16)>, max_steps: usize, body: Arc<dyn Fn() + Send + Sync + 'static>) -> (Option<ExecSummary>, Option<String>) {
    let icb = Icb::new_replay(choices);
    let mut out = None;
    let r = explore(&icb, max_steps, body, |e| out = Some(e), || false);
    (out, r.diverged)
}

/// Common driver used by the SCHED check binaries: explores `scenarios`
/// (name, body-factory, preemption bound) and feeds the Reporter.
pub struct Scenario {
    pub name: String,
    pub bound: usize,
    pub max_steps: usize,
    /// builds the per-execution body; it receives the Icb handle to record events/outcomes
    pub make: Arc<dyn Fn(Icb) -> Arc<dyn Fn() + Send + Sync + 'static> + Send + Sync>,
}

pub fn classify_panic(p: &str) -> String {
    let l = p.to_lowercase();
    if l.contains("deadlock") {
        "deadlock".into()
    } else if l.contains("exceeded max_steps") || l.contains("max_steps") || l.contains("step bound") {
        "livelock-or-step-bound".into()
    } else {
        // keep the message class without numbers
        let mut s: String = p.chars().map(|c| if c.is_ascii_digit() { '#' } else { c }).collect();
        s.truncate(120);
        format!("panic:{s}")
    }
}

pub fn run_scenarios(property: &str, scenarios: &[Scenario], ctx: &vcore::Ctx, rep: &mut vcore::Reporter) {
    use vcore::json;
    let only = ctx.opt("scenario").map(|s| s.to_string());
    for (sc_idx, sc) in scenarios.iter().enumerate() {
        if let Some(o) = &only {
            if &sc.name != o {
                continue;
            }
        }
        let icb = Icb::new(sc.bound, (ctx.worker, ctx.workers));
        let body = (sc.make)(icb.clone());
        let mut hist: Vec<u64> = vec![0; sc.bound + 2];
        let mut viol: Vec<(String, String, String, String, usize)> = Vec::new();
        let mut n_mine = 0u64;
        let mut outcomes: std::collections::BTreeSet<String> = Default::default();
        // fair share of the remaining wall budget, so that one large scenario cannot starve the later ones
        let now = std::time::Instant::now();
        let left = ctx.deadline.saturating_duration_since(now);
        let deadline = now + left / (scenarios.len() - sc_idx) as u32;
        let res = explore(
            &icb,
            sc.max_steps,
            body,
            |e| {
                if !e.mine {
                    return;
                }
                n_mine += 1;
                let k = e.preemptions.min(hist.len() - 1);
                hist[k] += 1;
                if let Some(o) = &e.outcome {
                    if outcomes.len() < 200 {
                        outcomes.insert(o.clone());
                    }
                }
                for (sig, exp, obs) in &e.events {
                    viol.push((sig.clone(), exp.clone(), obs.clone(), e.schedule_string(), e.preemptions));
                }
                if let Some(p) = &e.panic {
                    let cls = classify_panic(p);
                    viol.push((format!("{property}/{}/{cls}", sc.name), "execution completes".into(), p.clone(), e.schedule_string(), e.preemptions));
                }
            },
            || std::time::Instant::now() >= deadline,
        );
        if let Some(d) = &res.diverged {
            vcore::machinery(&format!("scenario {}: {d} — harness is not deterministic", sc.name));
        }
        if !res.exhausted {
            rep.capped(&format!("scenario {} not exhausted at bound {} before the deadline", sc.name, sc.bound));
        }
        let (execs, steps, maxlen) = icb.stats();
        rep.add_states(n_mine);
        rep.add_transitions(steps);
        rep.add_traces_validated(n_mine);
        rep.count(&format!("{}:schedules", sc.name), n_mine);
        rep.count(&format!("{}:executions_incl_partition_overhead", sc.name), execs);
        for (k, h) in hist.iter().enumerate() {
            if *h > 0 {
                rep.count(&format!("{}:schedules_with_{}_preemptions", sc.name, k), *h);
            }
        }
        rep.bound(&format!("{}:preemption_bound", sc.name), json!(sc.bound));
        rep.bound(&format!("{}:longest_schedule_steps", sc.name), json!(maxlen));
        for o in &outcomes {
            rep.outcome(&format!("{}:{}", sc.name, o));
        }
        // smallest preemption count first, so the recorded example is the easiest one
        viol.sort_by(|a, b| (a.4, a.3.len()).cmp(&(b.4, b.3.len())));
        for (sig, exp, obs, sched, pre) in viol {
            let name = sc.name.clone();
            // the signature's first component names the property the violation belongs to
            let prop = sig.split('/').next().unwrap_or(property).to_string();
            rep.violation(&prop, "schedule", &sig, || json!({"scenario": name, "schedule": sched, "preemptions": pre}), &exp, &obs);
        }
        for _ in 0..n_mine {
            // every schedule is distinct by construction (distinct choice vectors)
        }
        rep.bulk(n_mine, n_mine);
        rep.sample(|| json!({"scenario": sc.name, "schedule": "", "meaning": "empty = default schedule (no preemption); 'pos:choice' pairs list the non-default choices"}));
    }
}

pub fn replay_scenario(property: &str, scenarios: &[Scenario], case: &vcore::Value, rep: &mut vcore::Reporter) {
    use vcore::json;
    let name = case["scenario"].as_str().unwrap_or("");
    let Some(sc) = scenarios.iter().find(|s| s.name == name) else { vcore::machinery(&format!("unknown scenario {name}")) };
    let choices = parse_schedule(case["schedule"].as_str().unwrap_or(""));
    // run twice: identical observations required before trusting the verdict
    let mut sums = Vec::new();
    for _ in 0..2 {
        let holder: Arc<Mutex<Option<Icb>>> = Arc::new(Mutex::new(None));
        let icb = Icb::new_replay(choices.clone());
        *holder.lock().unwrap() = Some(icb.clone());
        let body = (sc.make)(icb.clone());
        let mut out = None;
        let r = explore(&icb, sc.max_steps, body, |e| out = Some(e), || false);
        if let Some(d) = r.diverged {
            vcore::machinery(&format!("replay diverged: {d}"));
        }
        sums.push(out);
    }
    let a = sums[0].clone().unwrap_or_default();
    let b = sums[1].clone().unwrap_or_default();
    if a.events != b.events || a.outcome != b.outcome || a.panic.is_some() != b.panic.is_some() {
        vcore::machinery("two replays of the same schedule gave different observations");
    }
    rep.bulk(1, 1);
    rep.add_states(1);
    rep.add_transitions(a.steps as u64);
    for (sig, exp, obs) in &a.events {
        let sched = a.schedule_string();
        let prop = sig.split('/').next().unwrap_or(property).to_string();
        rep.violation(&prop, "schedule", sig, || json!({"scenario": name, "schedule": sched}), exp, obs);
    }
    if let Some(p) = &a.panic {
        let cls = classify_panic(p);
        let sched = a.schedule_string();
        rep.violation(property, "schedule", &format!("{property}/{}/{cls}", sc.name), || json!({"scenario": name, "schedule": sched}), "execution completes", p);
    }
}
