//! C35 — the page cache never evicts pinned pages or mixes contents (SCHED engine, real PageCache).
use sched_harness::*;
use std::sync::Arc;
use turdb::memory::{MemoryBudget, Pool};
use turdb::storage::{PageCache, PageKey};
use vcore::{Check, Ctx, Reporter, Spec, Value};

const PAGE: usize = 16384;

#[derive(Clone, Copy)]
enum Op {
    /// get_or_insert(k), verify while pinned, drop
    Gi(u32),
    /// get_or_insert(k), write value v through data_mut, re-read while pinned, drop
    GiW(u32, u8),
    /// get(k), verify while pinned, drop
    G(u32),
    /// get_or_insert(a) and, while a is pinned, get_or_insert(b) (forces eviction pressure with a pinned page)
    GiHold2(u32, u32),
    Evict,
    /// clear(): only used against threads that hold no pin across a scheduling point (the property quantifies over get/insert/write/unpin; clear() dropping a pinned page is outside it)
    Clear,
    Touch(u32),
}

fn key(k: u32) -> PageKey {
    // all keys fall into shard 0: (file_id*31 + page_no) % 64 with file_id = 0
    PageKey::new(0, k * 64)
}
fn tag(k: u32) -> u8 {
    0xA0 + k as u8
}

fn verify_pinned(icb: &Icb, cache: &PageCache, sc: &str, k: u32, expect_v: Option<u8>) {
    match cache.data(&key(k)) {
        None => icb.event(&format!("C35/{sc}/pinned-page-missing"), "pinned page present in cache", &format!("cache.data(key {k}) = None while a PageRef is held")),
        Some(d) => {
            if d[0] != tag(k) {
                icb.event(&format!("C35/{sc}/contents-of-another-key"), &format!("tag {:#x}", tag(k)), &format!("tag {:#x}", d[0]));
            }
            if let Some(v) = expect_v {
                if d[1] != v {
                    icb.event(&format!("C35/{sc}/write-lost-while-pinned"), &format!("{v}"), &format!("{}", d[1]));
                }
            }
        }
    }
}

fn run_ops(icb: &Icb, cache: &PageCache, sc: &str, ops: &[Op], cap: usize, distinct_keys: usize) {
    let fill = |k: u32| move |buf: &mut [u8]| -> eyre::Result<()> { buf[0] = tag(k); buf[1] = 0; Ok(()) };
    for op in ops {
        match *op {
            Op::Gi(k) => {
                if let Ok(r) = cache.get_or_insert(key(k), fill(k)) {
                    verify_pinned(icb, cache, sc, k, None);
                    // second look after another scheduling point
                    verify_pinned(icb, cache, sc, k, None);
                    drop(r);
                }
            }
            Op::GiW(k, v) => {
                if let Ok(mut r) = cache.get_or_insert(key(k), fill(k)) {
                    r.data_mut()[1] = v;
                    verify_pinned(icb, cache, sc, k, Some(v));
                    verify_pinned(icb, cache, sc, k, Some(v));
                    drop(r);
                }
            }
            Op::G(k) => {
                if let Some(r) = cache.get(&key(k)) {
                    verify_pinned(icb, cache, sc, k, None);
                    drop(r);
                }
            }
            Op::GiHold2(a, b) => {
                if let Ok(ra) = cache.get_or_insert(key(a), fill(a)) {
                    let rb = cache.get_or_insert(key(b), fill(b));
                    verify_pinned(icb, cache, sc, a, None);
                    if rb.is_ok() {
                        verify_pinned(icb, cache, sc, b, None);
                    }
                    drop(rb);
                    drop(ra);
                }
            }
            Op::Evict => {
                cache.evict_all_unpinned();
            }
            Op::Clear => cache.clear(),
            Op::Touch(k) => {
                // pin and unpin at once, nothing is asserted while pinned (used next to a concurrent clear())
                let _ = cache.get_or_insert(key(k), fill(k));
            }
        }
    }
    // capacity: every key lives in shard 0 whose capacity is 1 (cache of 64 pages / 64 shards).
    // len() walks all 64 shard locks (128 scheduling points), so it is sampled once per thread.
    let n = cache.len();
    if n > cap {
        icb.event(&format!("C35/{sc}/shard-over-capacity"), &format!("<= {cap} entries in the shard"), &format!("{n} entries"));
    }
    if n > distinct_keys {
        icb.event(&format!("C35/{sc}/more-entries-than-keys"), &format!("<= {distinct_keys} entries (one per key ever used)"), &format!("{n} entries"));
    }
}

fn scenario(name: &str, bound: usize, tight_budget: bool, threads: Vec<Vec<Op>>) -> Scenario {
    scenario_p(name, bound, tight_budget, 64, threads)
}

fn keys_of(threads: &[Vec<Op>]) -> usize {
    let mut ks = std::collections::BTreeSet::new();
    for t in threads {
        for op in t {
            match *op {
                Op::Gi(k) | Op::GiW(k, _) | Op::G(k) | Op::Touch(k) => {
                    ks.insert(k);
                }
                Op::GiHold2(a, b) => {
                    ks.insert(a);
                    ks.insert(b);
                }
                Op::Evict | Op::Clear => {}
            }
        }
    }
    ks.len()
}

/// `pages` = cache size; the shard all keys fall into has capacity pages/64
fn scenario_p(name: &str, bound: usize, tight_budget: bool, pages: usize, threads: Vec<Vec<Op>>) -> Scenario {
    let nm = name.to_string();
    let (cap, nkeys) = (pages / 64, keys_of(&threads));
    Scenario {
        name: name.to_string(),
        bound,
        max_steps: 50_000,
        make: Arc::new(move |icb: Icb| {
            let threads = threads.clone();
            let nm = nm.clone();
            Arc::new(move || {
                let budget = Arc::new(MemoryBudget::with_limit(4 * 1024 * 1024));
                if tight_budget {
                    // leave room for exactly one page in the whole budget
                    let limit = budget.total_limit();
                    let _ = budget.allocate(Pool::Shared, limit - PAGE - PAGE / 2);
                }
                let base_cache_used = budget.stats().cache_used;
                let cache = Arc::new(PageCache::with_budget(pages, Some(budget.clone())).expect("cache"));
                let mut hs = Vec::new();
                for ops in threads.iter().cloned() {
                    let (cache, icb, nm) = (cache.clone(), icb.clone(), nm.clone());
                    hs.push(shuttle::thread::spawn(move || run_ops(&icb, &cache, &nm, &ops, cap, nkeys)));
                }
                for h in hs {
                    let _ = h.join();
                }
                // quiescence: no PageRef alive
                let live = cache.len();
                let used = budget.stats().cache_used;
                if used != base_cache_used + live * PAGE {
                    icb.event(&format!("C35/{nm}/budget-differs-from-cached-pages"), &format!("cache_used = {} pages", live), &format!("cache_used = {} bytes for {} cached pages", used, live));
                }
                cache.evict_all_unpinned();
                if cache.len() != 0 {
                    icb.event(&format!("C35/{nm}/unpinned-page-not-evictable-at-quiescence"), "0 entries", &format!("{} entries", cache.len()));
                }
                cache.clear();
                let used2 = budget.stats().cache_used;
                if used2 != base_cache_used {
                    icb.event(&format!("C35/{nm}/budget-not-zero-after-emptying"), "0", &format!("{used2}"));
                }
                icb.outcome(format!("live={live}"));
            })
        }),
    }
}

fn scenarios(ctx: &Ctx) -> Vec<Scenario> {
    let q = ctx.quick();
    let b2 = if q { 2 } else { 3 };
    let b3 = if q { 1 } else { 2 };
    let mut v = vec![
        scenario("2t-insert-two-keys", b2, false, vec![vec![Op::GiW(0, 7), Op::G(1)], vec![Op::GiW(1, 9), Op::G(0)]]),
        scenario("2t-same-key", b2, false, vec![vec![Op::GiW(0, 7), Op::Gi(0)], vec![Op::Gi(0), Op::G(0)]]),
        // capacity 2 per shard: a second entry for the same key would fit, so it must not be created
        scenario_p("2t-same-key-roomy-shard", b2, false, 128, vec![vec![Op::GiW(0, 7), Op::G(0)], vec![Op::Gi(0), Op::G(0)]]),
        scenario("2t-hold-two", b2, false, vec![vec![Op::GiHold2(0, 1)], vec![Op::GiHold2(1, 2)]]),
        scenario("2t-tight-budget", b2, true, vec![vec![Op::GiW(0, 5), Op::Gi(1)], vec![Op::Gi(2), Op::G(0)]]),
        scenario("3t-three-keys", b3, false, vec![vec![Op::GiW(0, 1)], vec![Op::GiW(1, 2), Op::G(0)], vec![Op::Gi(2), Op::Evict]]),
        scenario("2t-clear-vs-insert", b2, false, vec![vec![Op::Touch(0), Op::Touch(1)], vec![Op::Clear, Op::Touch(2)]]),
    ];
    // the largest quick scenario goes last so that it inherits the time the others did not use
    v.push(scenario("2t-evict-vs-pin", b2, false, vec![vec![Op::GiW(0, 5), Op::Gi(1)], vec![Op::Evict, Op::Gi(0), Op::Evict]]));
    if !q {
        v.push(scenario("3t-tight-budget", 2, true, vec![vec![Op::GiW(0, 1), Op::Gi(1)], vec![Op::Gi(1), Op::G(0)], vec![Op::Gi(2), Op::Evict]]));
    }
    v
}

struct C35;
impl Check for C35 {
    fn specs(&self) -> Vec<Spec> {
        let mut s = Spec::new(
            "C35",
            "model_checking",
            "every schedule with at most c preemptions (scheduling points = every shard RwLock operation and every atomic of cache.rs/budget.rs) of 2-3 threads x 1-3 cache operations (get_or_insert, write through data_mut, get, hold two pages, evict_all_unpinned, clear) on a 64-page cache (capacity 1 per shard) with all keys forced into one shard, with a roomy and a one-page budget; c=2 (quick) / 3 (thorough) for 2 threads, 1/2 for 3 threads. A state = one complete schedule (distinct by construction).",
        );
        s.assumptions = &["sequentially consistent atomics (shuttle); data races on page bytes (data_mut_unchecked) are outside the scheduler's model: each key has a single writer in the harness", "Err from get_or_insert (shard full and all pinned / budget exhausted) is an allowed outcome"];
        s.cap_quick_s = 90;
        s.cap_thorough_s = 1500;
        vec![s]
    }
    fn run(&self, ctx: &Ctx, rep: &mut Reporter) {
        run_scenarios("C35", &scenarios(ctx), ctx, rep);
    }
    fn replay(&self, ctx: &Ctx, case: &Value, rep: &mut Reporter) {
        let mut all = scenarios(ctx);
        let mut c2 = ctx.clone();
        c2.tier = vcore::Tier::Thorough;
        all.extend(scenarios(&c2));
        replay_scenario("C35", &all, case, rep);
    }
}
fn main() {
    vcore::main(&C35)
}
