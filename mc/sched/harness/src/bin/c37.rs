//! C37 (group commit completes every commit exactly once) and
//! C38 (concurrent commits log page images in commit order) — SCHED engine.
//!
//! The code under test is the REAL caller protocol: cloned `Database` handles
//! run `BEGIN; INSERT…; COMMIT` on shuttle threads with the WAL enabled, so
//! `execute_small_commit` + `GroupCommitQueue` + `Wal` are exercised together.
//! C37 oracle: when COMMIT returns Ok the WAL segment files (as read back from
//! the file system) already contain a checksum-valid frame whose page image
//! holds the committed row's marker; no deadlock; at quiescence the queue is
//! empty and the flush flag is clear.
//! C38 oracle: at the end of every schedule the directory is copied (= process
//! kill after the last acknowledged COMMIT), reopened with the real
//! `Database::open` (WAL replay over the table files) and every committed row
//! must be found through the table scan and through the primary-key index.
use sched_harness::*;
use std::path::{Path, PathBuf};
use std::sync::atomic::{AtomicU64, Ordering as StdOrdering};
use std::sync::Arc;
use turdb::storage::WAL_FRAME_HEADER_SIZE;
use turdb::Database;
use vcore::{Check, Ctx, Reporter, Spec, Value};

const PAGE: usize = 16384;
static EXEC_NO: AtomicU64 = AtomicU64::new(0);

fn wal_has_marker(dir: &Path, marker: &[u8]) -> (bool, usize) {
    // every checksum-valid frame of every segment, in segment order
    let mut frames = 0usize;
    let mut found = false;
    let wal_dir = dir.join("wal");
    let mut segs: Vec<PathBuf> = std::fs::read_dir(&wal_dir).map(|d| d.filter_map(|e| e.ok()).map(|e| e.path()).collect()).unwrap_or_default();
    segs.sort();
    for s in segs {
        let Ok(bytes) = std::fs::read(&s) else { continue };
        let stride = WAL_FRAME_HEADER_SIZE + PAGE;
        let mut off = 0;
        while off + stride <= bytes.len() {
            let hdr = &bytes[off..off + WAL_FRAME_HEADER_SIZE];
            let page = &bytes[off + WAL_FRAME_HEADER_SIZE..off + stride];
            // harness-side frame validation: CRC-64/ECMA-182 over the first 24 header bytes + page
            let stored = u64::from_le_bytes(hdr[24..32].try_into().unwrap());
            let ok = hdr.iter().any(|b| *b != 0) && crc64(&[&hdr[..24], page]) == stored;
            if !ok {
                break;
            }
            frames += 1;
            if !found && page.windows(marker.len()).any(|w| w == marker) {
                found = true;
            }
            off += stride;
        }
    }
    (found, frames)
}

/// (page number, page image) of every checksum-valid frame, in log order
fn wal_frames(dir: &Path) -> Vec<(u32, Vec<u8>)> {
    let mut out = Vec::new();
    let mut segs: Vec<PathBuf> = std::fs::read_dir(dir.join("wal")).map(|d| d.filter_map(|e| e.ok()).map(|e| e.path()).collect()).unwrap_or_default();
    segs.sort();
    for s in segs {
        let Ok(bytes) = std::fs::read(&s) else { continue };
        let stride = WAL_FRAME_HEADER_SIZE + PAGE;
        let mut off = 0;
        while off + stride <= bytes.len() {
            let hdr = &bytes[off..off + WAL_FRAME_HEADER_SIZE];
            let page = &bytes[off + WAL_FRAME_HEADER_SIZE..off + stride];
            let stored = u64::from_le_bytes(hdr[24..32].try_into().unwrap());
            if !(hdr.iter().any(|b| *b != 0) && crc64(&[&hdr[..24], page]) == stored) {
                break;
            }
            out.push((u32::from_le_bytes(hdr[8..12].try_into().unwrap()), page.to_vec()));
            off += stride;
        }
    }
    out
}

/// content of every table-storage file (`*.tbd`) below the database directory
fn snapshot_tables(dir: &Path) -> std::collections::BTreeMap<String, Vec<u8>> {
    fn walk(d: &Path, rel: String, out: &mut std::collections::BTreeMap<String, Vec<u8>>) {
        if let Ok(rd) = std::fs::read_dir(d) {
            for e in rd.filter_map(|e| e.ok()) {
                let p = e.path();
                let name = format!("{rel}{}", e.file_name().to_string_lossy());
                if p.is_dir() {
                    if name != "wal" {
                        walk(&p, format!("{name}/"), out);
                    }
                } else if name.ends_with(".tbd") {
                    out.insert(name, std::fs::read(&p).unwrap_or_default());
                }
            }
        }
    }
    let mut out = Default::default();
    walk(dir, String::new(), &mut out);
    out
}

fn debug_dump_wal(dir: &Path) {
    let wal_dir = dir.join("wal");
    let mut segs: Vec<PathBuf> = std::fs::read_dir(&wal_dir).map(|d| d.filter_map(|e| e.ok()).map(|e| e.path()).collect()).unwrap_or_default();
    segs.sort();
    for s in segs {
        let bytes = std::fs::read(&s).unwrap_or_default();
        let stride = WAL_FRAME_HEADER_SIZE + PAGE;
        eprintln!("segment {:?}: {} bytes", s.file_name(), bytes.len());
        let mut off = 0;
        while off + stride <= bytes.len() {
            let hdr = &bytes[off..off + WAL_FRAME_HEADER_SIZE];
            let page = &bytes[off + WAL_FRAME_HEADER_SIZE..off + stride];
            let file_id = u64::from_le_bytes(hdr[0..8].try_into().unwrap());
            let page_no = u32::from_le_bytes(hdr[8..12].try_into().unwrap());
            let db_size = u32::from_le_bytes(hdr[12..16].try_into().unwrap());
            let marks: Vec<String> = ["MK_h0_t0_", "MK_h0_t1_", "MK_h1_t0_", "seed"].iter().filter(|m| page.windows(m.len()).any(|w| w == m.as_bytes())).map(|m| m.to_string()).collect();
            eprintln!("  frame@{off}: file_id={file_id:#x} page={page_no} db_size={db_size} cell_count={} markers={marks:?}", u16::from_le_bytes([page[2], page[3]]));
            off += stride;
        }
    }
    for f in ["root/t0.tbd", "root/t0.idx"] {
        if let Ok(b) = std::fs::read(dir.join(f)) {
            eprintln!("file {f}: {} bytes", b.len());
        }
    }
}

fn crc64(parts: &[&[u8]]) -> u64 {
    // CRC-64/ECMA-182: poly 0x42F0E1EBA9EA3693, init 0, no reflection, xorout 0
    static TABLE: std::sync::OnceLock<[u64; 256]> = std::sync::OnceLock::new();
    let t = TABLE.get_or_init(|| {
        let mut t = [0u64; 256];
        for i in 0..256u64 {
            let mut c = i << 56;
            for _ in 0..8 {
                c = if c & (1 << 63) != 0 { (c << 1) ^ 0x42F0E1EBA9EA3693 } else { c << 1 };
            }
            t[i as usize] = c;
        }
        t
    });
    let mut crc = 0u64;
    for p in parts {
        for b in p.iter() {
            crc = t[((crc >> 56) as u8 ^ b) as usize] ^ (crc << 8);
        }
    }
    crc
}

fn copy_dir(src: &Path, dst: &Path) {
    let _ = std::fs::create_dir_all(dst);
    if let Ok(rd) = std::fs::read_dir(src) {
        for e in rd.filter_map(|e| e.ok()) {
            let p = e.path();
            let d = dst.join(e.file_name());
            if p.is_dir() {
                copy_dir(&p, &d);
            } else {
                let _ = std::fs::copy(&p, &d);
            }
        }
    }
}

#[derive(Clone)]
struct Txn {
    /// statements between BEGIN and COMMIT; `{m}` is replaced by the marker
    stmts: Vec<String>,
    table: String,
    key: i64,
}

fn exec_ok(db: &Database, sql: &str) -> Result<(), String> {
    db.execute(sql).map(|_| ()).map_err(|e| format!("{e:#}"))
}

fn scenario(name: &str, bound: usize, scratch: PathBuf, setup: Vec<String>, handles: Vec<Vec<Txn>>) -> Scenario {
    scenario_cov(name, bound, scratch, setup, handles, false)
}

/// `coverage` (single-handle scenarios only): when COMMIT returns, every page of every table file
/// that differs from its content before BEGIN must be in the log with exactly its current image.
fn scenario_cov(name: &str, bound: usize, scratch: PathBuf, setup: Vec<String>, handles: Vec<Vec<Txn>>, coverage: bool) -> Scenario {
    let nm = name.to_string();
    Scenario {
        name: name.to_string(),
        bound,
        max_steps: 400_000,
        make: Arc::new(move |icb: Icb| {
            let (nm, scratch, setup, handles) = (nm.clone(), scratch.clone(), setup.clone(), handles.clone());
            Arc::new(move || {
                let n = EXEC_NO.fetch_add(1, StdOrdering::Relaxed);
                let dir = scratch.join(format!("{nm}-{n}"));
                let _ = std::fs::remove_dir_all(&dir);
                let db = match Database::create(&dir) {
                    Ok(d) => d,
                    Err(e) => {
                        icb.event(&format!("C37/{nm}/setup-failed"), "Database::create ok", &format!("{e:#}"));
                        return;
                    }
                };
                for s in &setup {
                    if let Err(e) = exec_ok(&db, s) {
                        icb.event(&format!("C37/{nm}/setup-failed"), "setup statement ok", &format!("{s}: {e}"));
                        return;
                    }
                }
                // committed markers: (handle, txn index, table, key, marker)
                let acked: Arc<std::sync::Mutex<Vec<(usize, usize, String, i64, String)>>> = Arc::new(std::sync::Mutex::new(Vec::new()));
                let mut hs = Vec::new();
                for (h, txns) in handles.iter().cloned().enumerate() {
                    let hdb = db.clone();
                    let (icb, nm, dir, acked) = (icb.clone(), nm.clone(), dir.clone(), acked.clone());
                    hs.push(shuttle::thread::spawn(move || {
                        for (j, t) in txns.iter().enumerate() {
                            let marker = format!("MK_h{h}_t{j}_");
                            let before = if coverage { snapshot_tables(&dir) } else { Default::default() };
                            if exec_ok(&hdb, "BEGIN").is_err() {
                                continue;
                            }
                            let mut ok = true;
                            for s in &t.stmts {
                                if exec_ok(&hdb, &s.replace("{m}", &marker)).is_err() {
                                    ok = false;
                                }
                            }
                            if !ok {
                                let _ = exec_ok(&hdb, "ROLLBACK");
                                continue;
                            }
                            match exec_ok(&hdb, "COMMIT") {
                                Ok(()) => {
                                    // acknowledged: the log must already hold a valid frame with this row
                                    let (found, frames) = wal_has_marker(&dir, marker.as_bytes());
                                    if !found {
                                        // C37: "written to the log … before its submitter is told it succeeded";
                                        // C38: "covered by the log before the commit returns" — the same observation
                                        // contradicts both statements, so it is reported under both properties
                                        // whose payload should have carried the row? (hook: pages this COMMIT put into its own payload)
                                        let how = match turdb::verif_hooks::last_commit_payload(&hdb) {
                                            Some(0) => "empty-payload:pages-taken-by-a-concurrent-commit",
                                            Some(_) => "own-payload",
                                            None => "no-commit-record",
                                        };
                                        for p in ["C37", "C38"] {
                                            icb.event(
                                                &format!("{p}/{nm}/acknowledged-before-logged/{how}"),
                                                "a checksum-valid WAL frame containing the committed row exists when COMMIT returns",
                                                &format!("COMMIT {j} of handle {h} returned Ok; marker {marker} is in none of the {frames} valid frames on disk"),
                                            );
                                        }
                                    }
                                    if coverage {
                                        let frames = wal_frames(&dir);
                                        let after = snapshot_tables(&dir);
                                        let mut missing: std::collections::BTreeMap<String, Vec<usize>> = Default::default();
                                        let mut modified = 0usize;
                                        let mut detail: Vec<String> = Vec::new();
                                        for (f, bytes) in &after {
                                            let old = before.get(f);
                                            for (pno, img) in bytes.chunks(PAGE).enumerate() {
                                                let same = old.map_or(false, |o| o.len() >= (pno + 1) * PAGE && &o[pno * PAGE..(pno + 1) * PAGE] == img) || (old.map_or(true, |o| o.len() < (pno + 1) * PAGE) && img.iter().all(|b| *b == 0));
                                                if same {
                                                    continue;
                                                }
                                                modified += 1;
                                                if !frames.iter().any(|(p, fr)| *p as usize == pno && fr.as_slice() == img) {
                                                    let kind = if pno == 0 { "header-page" } else { "data-page" };
                                                    // the latest frame for this page number that shares the page's first byte (page type), if any
                                                    let how = match frames.iter().rev().find(|(p, _)| *p as usize == pno) {
                                                        None => "no-frame".to_string(),
                                                        Some((_, fr)) => {
                                                            let d: Vec<usize> = (0..PAGE).filter(|i| fr[*i] != img[*i]).collect();
                                                            detail.push(format!("page {pno}: latest frame differs at {} byte(s), offsets {:?}", d.len(), &d[..d.len().min(12)]));
                                                            "stale-frame".to_string()
                                                        }
                                                    };
                                                    missing.entry(format!("{}/{kind}/{how}", f.rsplit('.').next().unwrap_or("?"))).or_default().push(pno);
                                                }
                                            }
                                        }
                                        icb.outcome(format!("txn{j}:modified_pages={}", if modified > 16 { ">16" } else { "<=16" }));
                                        for (k, pages) in missing {
                                            icb.event(
                                                &format!("C38/{nm}/modified-page-not-covered-by-log/{k}/{}", if modified > 16 { "large-commit" } else { "small-commit" }),
                                                "every page the committed transaction modified is in the log with its committed image when COMMIT returns",
                                                &format!("COMMIT {j} returned Ok; {modified} pages differ from their pre-BEGIN content; no valid frame carries the current image of page(s) {pages:?}; {}", detail.join("; ")),
                                            );
                                        }
                                    }
                                    acked.lock().unwrap().push((h, j, t.table.clone(), t.key, marker));
                                }
                                Err(e) => {
                                    // no failure is injected in this scenario: a failing COMMIT is itself a finding class
                                    icb.event(&format!("C37/{nm}/commit-error-without-fault"), "COMMIT Ok", &e);
                                }
                            }
                        }
                    }));
                }
                for h in hs {
                    let _ = h.join();
                }
                // ---- quiescence (C37)
                let (pending, flushing) = turdb::verif_hooks::group_commit_state(&db);
                if pending != 0 || flushing {
                    icb.event(&format!("C37/{nm}/queue-not-quiescent"), "pending=0, flush_in_progress=false", &format!("pending={pending}, flush_in_progress={flushing}"));
                }
                let acked = acked.lock().unwrap().clone();
                // ---- which committed rows does the LIVE database show? (a row lost before the crash is a
                // concurrency defect of the DML path, not of log order: it gets its own signature and is
                // not charged to recovery)
                let mut live_missing: Vec<String> = Vec::new();
                for (_h, _j, table, _key, marker) in &acked {
                    let present = match db.query(&format!("SELECT * FROM {table} WHERE 1=1")) {
                        Ok(rows) => rows.iter().any(|r| (0..r.column_count()).any(|i| matches!(r.get(i), Some(turdb::OwnedValue::Text(s)) if s.starts_with(marker.as_str())))),
                        Err(_) => false,
                    };
                    if !present {
                        live_missing.push(marker.clone());
                    }
                }
                if !live_missing.is_empty() {
                    icb.event(&format!("C38/{nm}/committed-row-missing-in-live-database"), "every acknowledged row visible before the crash", &format!("{live_missing:?} missing from the live table"));
                }
                let acked: Vec<_> = acked.into_iter().filter(|a| !live_missing.contains(&a.4)).collect();
                // ---- crash + recovery (C38): process kill now
                if std::env::var("C37_DEBUG").is_ok() {
                    debug_dump_wal(&dir);
                }
                let crash = scratch.join(format!("{nm}-{n}-crash"));
                let _ = std::fs::remove_dir_all(&crash);
                copy_dir(&dir, &crash);
                drop(db);
                let mut outcome = format!("acked={}", acked.len());
                match Database::open(&crash) {
                    Err(e) => icb.event(&format!("C38/{nm}/reopen-failed"), "Database::open ok", &format!("{e:#}")),
                    Ok(rdb) => {
                        for (h, j, table, key, marker) in &acked {
                            // layer 1: table scan
                            let scan = rdb.query(&format!("SELECT * FROM {table} WHERE 1=1"));
                            let in_scan = match &scan {
                                Ok(rows) => rows.iter().any(|r| (0..r.column_count()).any(|i| matches!(r.get(i), Some(turdb::OwnedValue::Text(s)) if s.starts_with(marker.as_str())))),
                                Err(_) => false,
                            };
                            if let Err(e) = &scan {
                                icb.event(&format!("C38/{nm}/scan-error-after-recovery"), "table readable", &format!("{e:#}"));
                            } else if !in_scan {
                                icb.event(&format!("C38/{nm}/committed-row-missing-from-scan-after-recovery"), &format!("row of handle {h} txn {j} present"), &format!("{marker} not in {table}"));
                            }
                            // layer 2: primary-key lookup (index pages)
                            let pk = rdb.query(&format!("SELECT * FROM {table} WHERE id = {key}"));
                            match pk {
                                Ok(rows) => {
                                    if in_scan && rows.is_empty() {
                                        icb.event(&format!("C38/{nm}/committed-row-missing-from-pk-index-after-recovery"), "row found by id", &format!("id={key} ({marker}) found by scan but not by primary-key lookup"));
                                    }
                                }
                                Err(e) => icb.event(&format!("C38/{nm}/pk-lookup-error-after-recovery"), "lookup ok", &format!("{e:#}")),
                            }
                        }
                        drop(rdb);
                        outcome.push_str(",reopened");
                    }
                }
                let _ = std::fs::remove_dir_all(&dir);
                let _ = std::fs::remove_dir_all(&crash);
                icb.outcome(outcome);
            })
        }),
    }
}

/// Protocol-level scenario: the REAL `GroupCommitQueue` and `PageBufferPool`, with the caller
/// protocol of `Database::execute_small_commit` transcribed line by line (submit_and_wait; on Ok
/// take_pending -> write every payload to the log -> complete_batch / fail_batch). The log is an
/// in-memory list, so an execution costs microseconds and bound 2-3 is affordable in the quick
/// tier. The database-level scenarios above keep the transcription honest (thorough tier).
fn queue_scenario(name: &str, bound: usize, commits_per_thread: Vec<usize>, fail_kth_flush: Option<usize>) -> Scenario {
    use turdb::database::group_commit::{CommitPayload, GroupCommitQueue};
    use turdb::memory::PageBufferPool;
    let nm = name.to_string();
    Scenario {
        name: name.to_string(),
        bound,
        max_steps: 100_000,
        make: Arc::new(move |icb: Icb| {
            let (nm, commits_per_thread) = (nm.clone(), commits_per_thread.clone());
            Arc::new(move || {
                let q = Arc::new(GroupCommitQueue::with_default_config());
                let pool = Arc::new(PageBufferPool::new(16));
                // the "WAL": ids of payloads written, in write order; flush counter for fault injection
                // a shuttle mutex, as the real WAL mutex is a scheduling point between take_pending and the write
                let log: Arc<shuttle::sync::Mutex<(Vec<(u32, u32)>, usize)>> = Arc::new(shuttle::sync::Mutex::new((Vec::new(), 0)));
                let results: Arc<std::sync::Mutex<Vec<(u32, u32, bool)>>> = Arc::new(std::sync::Mutex::new(Vec::new()));
                let mut hs = Vec::new();
                for (h, n) in commits_per_thread.iter().copied().enumerate() {
                    let (q, pool, log, icb, nm, results) = (q.clone(), pool.clone(), log.clone(), icb.clone(), nm.clone(), results.clone());
                    hs.push(shuttle::thread::spawn(move || {
                        for j in 0..n {
                            let id = (h as u32 + 1, j as u32 + 1);
                            let mut buf = pool.acquire().expect("pool buffer");
                            buf.copy_from_page(&vec![h as u8 + 1; PAGE]);
                            let mut payload: CommitPayload = Default::default();
                            payload.push((id.0, id.1, buf, 1));
                            // ---- transcription of execute_small_commit's group-commit branch
                            let ok = match q.submit_and_wait_for_role(payload) {
                                Ok((_batch, false)) => true, // completed by another leader: nothing to flush
                                Ok((_batch, true)) => {
                                    let mut res = true;
                                    if let Some(pending) = q.take_pending() {
                                        let fail = {
                                            let mut l = log.lock().unwrap();
                                            l.1 += 1;
                                            fail_kth_flush == Some(l.1)
                                        };
                                        if fail {
                                            q.fail_batch(&pending, "injected flush failure");
                                            res = false;
                                        } else {
                                            {
                                                let mut l = log.lock().unwrap();
                                                for c in &pending {
                                                    for (t, p, _, _) in c.payload.iter() {
                                                        l.0.push((*t, *p));
                                                    }
                                                }
                                            }
                                            q.complete_batch(&pending);
                                        }
                                    }
                                    res
                                }
                                Err(_e) => false,
                            };
                            // ---- oracle at acknowledgement time
                            let written = log.lock().unwrap().0.iter().filter(|x| **x == id).count();
                            if ok && written == 0 {
                                icb.event(&format!("C37/{nm}/acknowledged-before-logged"), "payload in the log when its submitter is told it succeeded", &format!("commit {} of thread {} acknowledged with its payload not written", j + 1, h));
                            }
                            results.lock().unwrap().push((id.0, id.1, ok));
                        }
                    }));
                }
                for h in hs {
                    let _ = h.join();
                }
                let l = log.lock().unwrap().0.clone();
                for (t, p, ok) in results.lock().unwrap().iter() {
                    let n = l.iter().filter(|x| **x == (*t, *p)).count();
                    if *ok && n != 1 {
                        icb.event(&format!("C37/{nm}/payload-not-written-exactly-once"), "1 write", &format!("{n} writes of payload ({t},{p})"));
                    }
                    if !*ok && fail_kth_flush.is_none() {
                        icb.event(&format!("C37/{nm}/commit-error-without-fault"), "Ok", "Err");
                    }
                    if !*ok && n != 0 && fail_kth_flush.is_some() {
                        // reported failure although written: allowed (a failed batch may have been partly written)
                    }
                }
                if fail_kth_flush.is_some() {
                    // every commit whose payload was never written must have been told it failed
                    for (t, p, ok) in results.lock().unwrap().iter() {
                        if *ok && !l.contains(&(*t, *p)) {
                            icb.event(&format!("C37/{nm}/failure-not-reported-to-batch-member"), "Err for a commit of the failed batch", &format!("payload ({t},{p}) reported Ok"));
                        }
                    }
                }
                let pending = q.pending_count();
                let flushing = q.verif_flush_in_progress();
                if pending != 0 || flushing {
                    icb.event(&format!("C37/{nm}/queue-not-quiescent"), "pending=0, flush_in_progress=false", &format!("pending={pending}, flush_in_progress={flushing}"));
                }
                icb.outcome(format!("log_len={}", l.len()));
            })
        }),
    }
}

fn ins(table: &str, key: i64) -> Txn {
    Txn { stmts: vec![format!("INSERT INTO {table} VALUES ({key}, '{{m}}payload')")], table: table.to_string(), key }
}

fn scenarios(ctx: &Ctx) -> Vec<Scenario> {
    let q = ctx.quick();
    let setup_two = vec![
        "PRAGMA wal=ON".to_string(),
        "PRAGMA synchronous=FULL".to_string(),
        "CREATE TABLE t0 (id INT PRIMARY KEY, v TEXT)".to_string(),
        "CREATE TABLE t1 (id INT PRIMARY KEY, v TEXT)".to_string(),
    ];
    let setup_one = vec![
        "PRAGMA wal=ON".to_string(),
        "PRAGMA synchronous=FULL".to_string(),
        "CREATE TABLE t0 (id INT PRIMARY KEY, v TEXT)".to_string(),
        "INSERT INTO t0 VALUES (100, 'seed')".to_string(),
    ];
    let s = ctx.scratch.clone();
    let mut v = Vec::new();
    // the protocol-level scenarios only produce C37 verdicts
    if ctx.property != "C38" {
        v.push(queue_scenario("queue-2-1", if q { 3 } else { 4 }, vec![2, 1], None));
        if !q {
            v.push(queue_scenario("queue-2x2", 3, vec![2, 2], None));
        }
        v.push(queue_scenario("queue-2-1-1", if q { 2 } else { 3 }, vec![2, 1, 1], None));
        v.push(queue_scenario("queue-2x2-fail-1st-flush", if q { 2 } else { 3 }, vec![2, 2], Some(1)));
        v.push(queue_scenario("queue-2x2-fail-2nd-flush", if q { 2 } else { 3 }, vec![2, 2], Some(2)));
    }
    v.extend(vec![
        scenario("2h-own-tables", if q { 1 } else { 2 }, s.clone(), setup_two.clone(), vec![vec![ins("t0", 1), ins("t0", 2)], vec![ins("t1", 1)]]),
        scenario("2h-same-table", if q { 1 } else { 2 }, s.clone(), setup_one.clone(), vec![vec![ins("t0", 1)], vec![ins("t0", 2)]]),
    ]);
    // one handle, one small (<= 16 dirty pages) and one large (chunked path) transaction: log coverage
    // of every modified table page at COMMIT return (C38, second sentence); one schedule, cheap
    let bulk = |n: i64, from: i64| Txn {
        stmts: (0..n).map(|i| format!("INSERT INTO t0 VALUES ({}, '{{m}}{}')", from + i, "p".repeat(700))).collect(),
        table: "t0".to_string(),
        key: from,
    };
    v.push(scenario_cov("1h-small-then-large-commit", 0, s.clone(), setup_one.clone(), vec![vec![bulk(12, 1000), bulk(if q { 420 } else { 900 }, 2000), bulk(3, 5000)]], true));
    if !q {
        v.push(scenario("3h-own-tables", 1, s.clone(), {
            let mut x = setup_two.clone();
            x.push("CREATE TABLE t2 (id INT PRIMARY KEY, v TEXT)".to_string());
            x
        }, vec![vec![ins("t0", 1)], vec![ins("t1", 1)], vec![ins("t2", 1)]]));
    }
    v
}

struct C37;
impl Check for C37 {
    fn specs(&self) -> Vec<Spec> {
        let rule = "every schedule with at most c preemptions of 2-3 cloned Database handles each running 1-2 BEGIN/INSERT/COMMIT transactions with the WAL on (scheduling points = every parking_lot lock/condvar operation of the whole crate and the atomics of group_commit.rs, page_locks.rs, budget.rs, cache.rs, page_buffer.rs, mvcc/transaction.rs); c=1 (quick) / 2 (thorough). A state = one complete schedule incl. database creation, commits, crash copy and reopen; distinct by construction.";
        let mut a = Spec::new("C37", "model_checking", rule);
        a.assumptions = &["sequentially consistent atomics; Condvar::wait_for modelled as untimed wait (a lost wake-up is a deadlock); file system = tmpfs, reads of the WAL see exactly the bytes written by completed write() calls"];
        a.cap_quick_s = 100;
        a.cap_thorough_s = 1700;
        let mut b = Spec::new("C38", "model_checking", rule);
        b.assumptions = &["crash model in this check = process kill after the last acknowledged COMMIT of each schedule (files as they are); crashes inside a commit are covered by C01/C02"];
        b.cap_quick_s = 100;
        b.cap_thorough_s = 1700;
        vec![a, b]
    }
    fn run(&self, ctx: &Ctx, rep: &mut Reporter) {
        let p = ctx.property.clone();
        run_scenarios(&p, &scenarios(ctx), ctx, rep);
    }
    fn replay(&self, ctx: &Ctx, case: &Value, rep: &mut Reporter) {
        let mut all = scenarios(ctx);
        let mut c2 = ctx.clone();
        c2.tier = vcore::Tier::Thorough;
        all.extend(scenarios(&c2));
        replay_scenario(&ctx.property, &all, case, rep);
    }
}
fn main() {
    // harness speed only: the subject allocates an 8 MiB BufWriter per WAL segment and a page-buffer
    // pool per Database; keep those on the heap instead of one mmap/munmap pair per execution
    unsafe {
        libc::mallopt(libc::M_MMAP_THRESHOLD, 32 << 20);
        libc::mallopt(libc::M_TRIM_THRESHOLD, 1 << 30);
    }
    vcore::main(&C37)
}
