//! C39 — the memory budget is a hard limit (SCHED engine, real MemoryBudget).
use sched_harness::*;
use std::sync::Arc;
use turdb::memory::{MemoryBudget, Pool};
use vcore::{Check, Ctx, Reporter, Spec, Value};

const MIB: usize = 1024 * 1024;

#[derive(Clone, Copy)]
enum Op {
    Alloc(u8, usize), // pool index, bytes
    AllocRelease(u8, usize),
    /// allocate and, if granted, read total_used() while still holding the grant. Only used in scenarios
    /// where every OTHER thread touches a single pool, so the five loads of total_used() contain one
    /// foreign variable and the sum is the usage of one instant (no torn snapshot, no false alarm).
    AllocObserve(u8, usize),
}
fn pool(i: u8) -> Pool {
    match i {
        0 => Pool::Cache,
        1 => Pool::Query,
        2 => Pool::Recovery,
        3 => Pool::Schema,
        _ => Pool::Shared,
    }
}

fn scenario(name: &str, bound: usize, threads: Vec<Vec<Op>>) -> Scenario {
    let nm = name.to_string();
    Scenario {
        name: name.to_string(),
        bound,
        max_steps: 20_000,
        make: Arc::new(move |icb: Icb| {
            let threads = threads.clone();
            let nm = nm.clone();
            Arc::new(move || {
                let b = Arc::new(MemoryBudget::with_limit(4 * MIB));
                let limit = b.total_limit();
                // per-thread ledger of what each thread holds at the end: (pool, bytes)
                let ledger: Arc<std::sync::Mutex<Vec<(u8, usize)>>> = Arc::new(std::sync::Mutex::new(Vec::new()));
                let mut hs = Vec::new();
                for ops in threads.iter().cloned() {
                    let (b, ledger) = (b.clone(), ledger.clone());
                    let (icb2, nm2) = (icb.clone(), nm.clone());
                    hs.push(shuttle::thread::spawn(move || {
                        for op in ops {
                            match op {
                                Op::Alloc(p, n) => {
                                    if b.allocate(pool(p), n).is_ok() {
                                        ledger.lock().unwrap().push((p, n));
                                    }
                                }
                                Op::AllocObserve(p, n) => {
                                    if b.allocate(pool(p), n).is_ok() {
                                        let used = b.total_used();
                                        if used > limit {
                                            icb2.event(&format!("C39/{nm2}/tracked-usage-above-limit-after-successful-allocation"), &format!("total_used() <= {} MiB while the grant is held", limit / MIB), &format!("total_used() = {} KiB right after allocate({}, {} KiB) succeeded", used / 1024, pool(p).name(), n / 1024));
                                        }
                                        ledger.lock().unwrap().push((p, n));
                                    }
                                }
                                Op::AllocRelease(p, n) => {
                                    if b.allocate(pool(p), n).is_ok() {
                                        b.release(pool(p), n);
                                    }
                                }
                            }
                        }
                    }));
                }
                for h in hs {
                    let _ = h.join();
                }
                // quiescent point: all threads finished
                let held = ledger.lock().unwrap().clone();
                let total: usize = held.iter().map(|x| x.1).sum();
                let st = b.stats();
                if total > limit {
                    icb.event(&format!("C39/{nm}/successful-allocations-exceed-limit"), &format!("sum of successful allocations <= limit"), &format!("{} MiB granted of a {} MiB limit", total / MIB, limit / MIB));
                }
                let per = |i: u8| held.iter().filter(|x| x.0 == i).map(|x| x.1).sum::<usize>();
                let got = [st.cache_used, st.query_used, st.recovery_used, st.schema_used, st.shared_used];
                for i in 0..5u8 {
                    if got[i as usize] != per(i) {
                        icb.event(&format!("C39/{nm}/pool-counter-differs-from-ledger"), &format!("pool {} = {}", pool(i).name(), per(i)), &format!("{}", got[i as usize]));
                    }
                }
                for (p, n) in &held {
                    b.release(pool(*p), *n);
                }
                if b.total_used() != 0 {
                    icb.event(&format!("C39/{nm}/not-zero-after-release"), "0", &format!("{}", b.total_used()));
                }
                icb.outcome(format!("granted_mib={}", total / MIB));
            })
        }),
    }
}

fn scenarios(ctx: &Ctx) -> Vec<Scenario> {
    let q = ctx.quick();
    // 2 threads: effectively unbounded (bound 8 exceeds the number of scheduling points that can be preempted usefully)
    let b2 = if q { 6 } else { 10 };
    let mut v = vec![
        scenario("2t-two-pools-3MiB", b2, vec![vec![Op::Alloc(1, 3 * MIB)], vec![Op::Alloc(0, 3 * MIB)]]),
        scenario("2t-same-pool-3MiB", b2, vec![vec![Op::Alloc(1, 3 * MIB)], vec![Op::Alloc(1, 3 * MIB)]]),
        scenario("2t-alloc-release-vs-alloc", b2, vec![vec![Op::AllocRelease(1, 3 * MIB), Op::Alloc(1, MIB + MIB / 2)], vec![Op::Alloc(0, 3 * MIB)]]),
        // requests a little above half the limit: at most one can be outstanding, so a thread that was just
        // granted one must read total_used() <= limit
        scenario("2t-release-vs-observed-alloc", 3, vec![vec![Op::AllocRelease(1, 2 * MIB + 4096), Op::AllocRelease(1, 2 * MIB + 4096)], vec![Op::AllocObserve(0, 2 * MIB + 4096)]]),
        scenario("2t-release-vs-observed-alloc-shared", 3, vec![vec![Op::AllocRelease(0, 2 * MIB + 4096)], vec![Op::AllocObserve(4, 2 * MIB + 4096), Op::AllocObserve(4, MIB)]]),
        scenario("2t-shared-vs-query", b2, vec![vec![Op::Alloc(4, 3 * MIB)], vec![Op::Alloc(1, MIB + MIB / 2), Op::Alloc(1, MIB + MIB / 2)]]),
        scenario("3t-three-pools", if q { 3 } else { 4 }, vec![vec![Op::Alloc(0, MIB + MIB / 2)], vec![Op::Alloc(1, MIB + MIB / 2)], vec![Op::Alloc(2, MIB + MIB / 2)]]),
    ];
    if !q {
        v.push(scenario("3t-small-and-large", 3, vec![vec![Op::Alloc(0, 64 * 1024), Op::Alloc(0, 3 * MIB)], vec![Op::Alloc(1, 3 * MIB)], vec![Op::AllocRelease(3, MIB + MIB / 2)]]));
    }
    v
}

struct C39;
impl Check for C39 {
    fn specs(&self) -> Vec<Spec> {
        let mut s = Spec::new(
            "C39",
            "model_checking",
            "every schedule with at most c preemptions (scheduling points = every atomic load/CAS of budget.rs) of 2-3 threads x 1-2 allocate/release calls near a 4 MiB limit, same and different pools; 2 threads: c=6 (quick) / 10 (thorough), 3 threads: c=3/4. A state = one complete schedule (distinct by construction); oracles: at quiescence against a ledger of successful calls; in two scenarios (c=3) additionally total_used() <= limit read by the thread that was just granted a request of limit/2+4 KiB while it holds the grant (at most one such request can be outstanding, the other thread touches one pool only, so the read is the usage of one instant).",
        );
        s.assumptions = &["sequentially consistent atomics (shuttle)"];
        s.cap_quick_s = 90;
        s.cap_thorough_s = 1500;
        vec![s]
    }
    fn run(&self, ctx: &Ctx, rep: &mut Reporter) {
        run_scenarios("C39", &scenarios(ctx), ctx, rep);
    }
    fn replay(&self, ctx: &Ctx, case: &Value, rep: &mut Reporter) {
        let mut all = scenarios(ctx);
        let mut c2 = ctx.clone();
        c2.tier = vcore::Tier::Thorough;
        all.extend(scenarios(&c2));
        replay_scenario("C39", &all, case, rep);
    }
}
fn main() {
    vcore::main(&C39)
}
