//! C36 — page write locks are mutually exclusive (SCHED engine, real PageLockManager).
use sched_harness::*;
use shuttle::sync::atomic::{AtomicUsize, Ordering};
use std::sync::Arc;
use turdb::database::page_locks::PageLockManager;
use vcore::{Check, Ctx, Reporter, Spec, Value};

struct Occ {
    writers: AtomicUsize,
    readers: AtomicUsize,
}
impl Occ {
    fn new() -> Occ {
        Occ { writers: AtomicUsize::new(0), readers: AtomicUsize::new(0) }
    }
}

#[derive(Clone, Copy)]
enum Op {
    W(u32),         // page_write(1,p) .. drop
    R(u32),         // page_read(1,p) .. drop
    IxW(u32),       // table_intent_exclusive(1) + page_write(1,p)
    IsR(u32),       // table_intent_shared(1) + page_read(1,p)
    Multi(u32, u32), // page_write_multi([(1,a),(1,b)])
}

fn crit_w(icb: &Icb, occ: &Occ, sc: &str, page: u32) {
    // the fetch_add is both the occupancy record and a scheduling point inside the critical section
    let w = occ.writers.fetch_add(1, Ordering::SeqCst);
    let r = occ.readers.load(Ordering::SeqCst);
    if w != 0 {
        icb.event(&format!("C36/{sc}/two-writers-on-one-page"), "at most one writer", &format!("{} writers hold page {page}", w + 1));
    }
    if r != 0 {
        icb.event(&format!("C36/{sc}/writer-with-reader"), "no reader while writing", &format!("{r} readers + writer on page {page}"));
    }
    occ.writers.fetch_sub(1, Ordering::SeqCst);
}
fn crit_r(icb: &Icb, occ: &Occ, sc: &str, page: u32) {
    occ.readers.fetch_add(1, Ordering::SeqCst);
    let w = occ.writers.load(Ordering::SeqCst);
    if w != 0 {
        icb.event(&format!("C36/{sc}/reader-with-writer"), "no writer while reading", &format!("{w} writers + reader on page {page}"));
    }
    occ.readers.fetch_sub(1, Ordering::SeqCst);
}

fn run_ops(icb: &Icb, m: &PageLockManager, occ: &[Occ; 3], sc: &str, ops: &[Op]) {
    for op in ops {
        match *op {
            Op::W(p) => {
                let g = m.page_write(1, p);
                crit_w(icb, &occ[p as usize % 3], sc, p);
                drop(g);
            }
            Op::R(p) => {
                let g = m.page_read(1, p);
                crit_r(icb, &occ[p as usize % 3], sc, p);
                drop(g);
            }
            Op::IxW(p) => {
                let t = m.table_intent_exclusive(1);
                let g = m.page_write(1, p);
                crit_w(icb, &occ[p as usize % 3], sc, p);
                drop(g);
                drop(t);
            }
            Op::IsR(p) => {
                let t = m.table_intent_shared(1);
                let g = m.page_read(1, p);
                crit_r(icb, &occ[p as usize % 3], sc, p);
                drop(g);
                drop(t);
            }
            Op::Multi(a, b) => {
                let gs = m.page_write_multi(&[(1, a), (1, b)]);
                crit_w(icb, &occ[a as usize % 3], sc, a);
                crit_w(icb, &occ[b as usize % 3], sc, b);
                drop(gs);
            }
        }
    }
}

fn scenario(name: &str, bound: usize, threads: Vec<Vec<Op>>) -> Scenario {
    let nm = name.to_string();
    Scenario {
        name: name.to_string(),
        bound,
        max_steps: 20_000,
        make: Arc::new(move |icb: Icb| {
            let threads = threads.clone();
            let nm = nm.clone();
            Arc::new(move || {
                let m = Arc::new(PageLockManager::new());
                let occ = Arc::new([Occ::new(), Occ::new(), Occ::new()]);
                let mut hs = Vec::new();
                for ops in threads.iter().cloned() {
                    let (m, occ, icb, nm) = (m.clone(), occ.clone(), icb.clone(), nm.clone());
                    hs.push(shuttle::thread::spawn(move || run_ops(&icb, &m, &occ, &nm, &ops)));
                }
                for h in hs {
                    let _ = h.join();
                }
                let (p, t) = m.verif_entry_counts();
                if (p, t) != (0, 0) {
                    icb.event(&format!("C36/{nm}/lock-table-not-empty-at-quiescence"), "(0,0) entries", &format!("({p},{t}) entries"));
                }
                icb.outcome(format!("entries=({p},{t})"));
            })
        }),
    }
}

fn scenarios(ctx: &Ctx) -> Vec<Scenario> {
    let q = ctx.quick();
    let b2 = if q { 3 } else { 4 };
    let mut v = vec![
        scenario("2w-same-page", b2, vec![vec![Op::W(7), Op::W(7)], vec![Op::W(7), Op::W(7)]]),
        scenario("w-r-same-page", b2, vec![vec![Op::W(7), Op::R(7)], vec![Op::R(7), Op::W(7)]]),
        scenario("2w-two-pages", b2, vec![vec![Op::W(7), Op::W(8)], vec![Op::W(8), Op::W(7)]]),
        scenario("intent-locks", b2, vec![vec![Op::IxW(7), Op::IsR(7)], vec![Op::IsR(7), Op::IxW(7)]]),
        scenario("multi-vs-multi", b2, vec![vec![Op::Multi(7, 8)], vec![Op::Multi(8, 7), Op::W(7)]]),
        scenario("3t-w-w-r", if q { 2 } else { 3 }, vec![vec![Op::W(7)], vec![Op::W(7)], vec![Op::R(7), Op::W(7)]]),
    ];
    if !q {
        v.push(scenario("3t-2w-each", 2, vec![vec![Op::W(7), Op::W(7)], vec![Op::W(7), Op::W(7)], vec![Op::W(7), Op::R(7)]]));
    }
    v
}

struct C36;
impl Check for C36 {
    fn specs(&self) -> Vec<Spec> {
        let mut s = Spec::new(
            "C36",
            "model_checking",
            "every schedule (vector of choices at the scheduling points = every parking_lot lock operation and every atomic of page_locks.rs) with at most c preemptions, for each scenario of 2-3 threads x 1-2 lock/unlock operations on 1-2 pages; c=3 (quick) / 4 (thorough) for 2 threads, 2/3 for 3 threads. A state = one complete schedule; distinct by construction (distinct choice vectors); transitions = scheduling decisions.",
        );
        s.assumptions = &["sequentially consistent atomics (shuttle); parking_lot replaced by a shim mapping each operation to one shuttle operation; RwLock fairness is shuttle's"];
        s.cap_quick_s = 90;
        s.cap_thorough_s = 1500;
        vec![s]
    }
    fn run(&self, ctx: &Ctx, rep: &mut Reporter) {
        run_scenarios("C36", &scenarios(ctx), ctx, rep);
    }
    fn replay(&self, ctx: &Ctx, case: &Value, rep: &mut Reporter) {
        let mut all = scenarios(ctx);
        // scenarios of both tiers are replayable
        let mut c2 = ctx.clone();
        c2.tier = vcore::Tier::Thorough;
        all.extend(scenarios(&c2));
        replay_scenario("C36", &all, case, rep);
    }
}
fn main() {
    vcore::main(&C36)
}
